// Helpers injected as child module `verif_h` of `wrath_header::decrypt` (private fields of the halves).
#![allow(dead_code, unused_imports)]
use super::*;
use crate::wrath_header::inner_crypto::verif_h as ich;

pub(crate) fn mk_client_dec(inner: InnerCrypto, header: [u8; 4]) -> ClientDecrypterHalf {
    ClientDecrypterHalf { decrypt: inner, header }
}
pub(crate) fn any_client_dec() -> ClientDecrypterHalf {
    ClientDecrypterHalf { decrypt: ich::any_inner(), header: kani::any() }
}
pub(crate) fn any_client_dec_at(i: u8) -> ClientDecrypterHalf {
    ClientDecrypterHalf { decrypt: ich::any_inner_at(i), header: kani::any() }
}
pub(crate) fn any_server_dec_at(i: u8) -> ServerDecrypterHalf {
    ServerDecrypterHalf { decrypt: ich::any_inner_at(i) }
}
pub(crate) fn client_dec_inner(d: &ClientDecrypterHalf) -> &InnerCrypto {
    &d.decrypt
}
pub(crate) fn client_dec_stash(d: &ClientDecrypterHalf) -> [u8; 4] {
    d.header
}
pub(crate) fn mk_server_dec(inner: InnerCrypto) -> ServerDecrypterHalf {
    ServerDecrypterHalf { decrypt: inner }
}
pub(crate) fn any_server_dec() -> ServerDecrypterHalf {
    ServerDecrypterHalf { decrypt: ich::any_inner() }
}
pub(crate) fn server_dec_inner(d: &ServerDecrypterHalf) -> &InnerCrypto {
    &d.decrypt
}
