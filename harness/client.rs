// Harnesses injected as child module `verif_h` of `client`.
#![allow(dead_code, unused_imports)]
use super::*;
// explicit imports: the harness must not depend on which names the parent module happens to import
#[allow(unused_imports)]
use crate::error::{InvalidPublicKeyError, MatchProofsError};
#[allow(unused_imports)]
use crate::key::{PrivateKey, Proof, PublicKey, ReconnectData, SKey, Salt, SessionKey, Sha1Hash, Verifier};
#[allow(unused_imports)]
use crate::normalized_string::NormalizedString;
#[allow(unused_imports)]
use crate::primes::{Generator, KValue, LargeSafePrime};
use crate::normalized_string::verif_h::{any_name, name_bytes};
use crate::server::verif_h::{eq16, eq20, eq32, eq40};

pub(crate) fn mk_client(name: NormalizedString, k: [u8; 40]) -> SrpClient {
    SrpClient { username: name, session_key: SessionKey::from_le_bytes(k) }
}

/// C05: the client draws a fresh challenge for every reconnect and proves knowledge of K over
/// (name | own challenge | server challenge | K).
#[kani::proof]
#[kani::unwind(100)]
#[kani::stub(core::str::from_utf8, verif_oracle::from_utf8_model)]
fn c05_client_values() {
    let name = any_name(16);
    let k: [u8; 40] = kani::any();
    let sc: [u8; 16] = kani::any();
    let cli = mk_client(name.clone(), k);
    let v = cli.calculate_reconnect_values(sc);
    assert!(verif_oracle::n_draws() == 1 && verif_oracle::draw_len(0) == 16, "C05: the client did not draw a fresh 16-byte challenge");
    let d = verif_oracle::draw_bytes(0);
    let mut fresh = [0u8; 16];
    let mut i = 0;
    while i < 16 {
        fresh[i] = d[i];
        i += 1;
    }
    assert!(eq16(&v.challenge_data, &fresh), "C05: the reported client challenge is not the fresh draw");
    let (nb, nl) = name_bytes(&name);
    let expected = verif_oracle::sha1_of(&[&nb[..nl], &fresh, &sc, &k]);
    assert!(eq20(&v.proof, &expected), "C05: client reconnect proof is not SHA-1(name | client challenge | server challenge | session key)");
    let v2 = cli.calculate_reconnect_values(sc);
    assert!(verif_oracle::n_draws() == 2, "C05: the second reconnect did not draw again");
    let d2 = verif_oracle::draw_bytes(1);
    let mut i = 0;
    while i < 16 {
        assert!(v2.challenge_data[i] == d2[i], "C05: second client challenge is not the second draw");
        i += 1;
    }
    kani::cover!(name.as_ref().len() == 16, "16-byte name");
}

// =================================================================================================
// C02 / C01 / C15 on the client (callees replaced by uninterpreted stubs; their own lemmas are c03_*)
// =================================================================================================
use crate::srp_internal::verif_h as sih;
use crate::srp_internal_client::verif_h as sch;

pub(crate) fn mk_challenge(name: NormalizedString, m1: [u8; 20], a: PublicKey, k: [u8; 40]) -> SrpClientChallenge {
    SrpClientChallenge { username: name, client_proof: Proof::from_le_bytes(m1), client_public_key: a, session_key: SessionKey::from_le_bytes(k) }
}

#[kani::proof]
#[kani::unwind(42)]
#[kani::stub(core::str::from_utf8, verif_oracle::from_utf8_model)]
#[kani::stub(crate::srp_internal::calculate_server_proof, sih::stub_server_proof)]
fn c02_client_decision() {
    let name = any_name(16);
    let m1: [u8; 20] = kani::any();
    let a = sih::any_valid_public_key();
    let k: [u8; 40] = kani::any();
    let m2: [u8; 20] = kani::any();
    let exp = sih::stub_server_proof(&a, &Proof::from_le_bytes(m1), &SessionKey::from_le_bytes(k));
    let ch = mk_challenge(name.clone(), m1, a, k);
    assert!(eq20(ch.client_proof(), &m1) && eq32(ch.client_public_key(), a.as_le_bytes()), "C02: challenge accessors do not return the stored values");
    match ch.verify_server_proof(m2) {
        Ok(c) => {
            assert!(eq20(&m2, exp.as_le_bytes()), "C02: the client accepted a server proof that is not M2(A, M1, K)");
            assert!(eq40(c.session_key(), &k) && c.username == name, "C02: client session differs from the challenge");
            kani::cover!(true, "accepted");
        }
        Err(e) => {
            assert!(!eq20(&m2, exp.as_le_bytes()), "C02: the client refused the expected server proof");
            assert!(eq20(&e.server_proof, &m2) && eq20(&e.client_proof, exp.as_le_bytes()), "C02: client error does not carry both proofs");
            let mut diff = 0u32;
            let mut i = 0;
            while i < 20 {
                diff += (m2[i] ^ exp.as_le_bytes()[i]).count_ones();
                i += 1;
            }
            kani::cover!(diff == 1 && m2[19] != exp.as_le_bytes()[19], "single-bit change in the last byte refused");
        }
    }
    assert!(verif_oracle::counter(9) == 2, "harness: calculate_server_proof not called exactly once");
}

/// C03/C15/C01: SrpClientChallenge::new wires a fresh a, the announced group, the peer's B and salt into the leaves.
#[kani::proof]
#[kani::unwind(42)]
#[kani::stub(core::str::from_utf8, verif_oracle::from_utf8_model)]
#[kani::stub(crate::srp_internal_client::calculate_client_public_key, sch::stub_client_public_key)]
#[kani::stub(crate::srp_internal::calculate_x, sih::stub_x)]
#[kani::stub(crate::srp_internal::calculate_u, sih::stub_u)]
#[kani::stub(crate::srp_internal_client::calculate_client_S, sch::stub_client_S)]
#[kani::stub(crate::srp_internal::calculate_interleaved, sih::stub_interleaved)]
#[kani::stub(crate::srp_internal_client::calculate_client_proof_with_custom_value, sch::stub_client_proof_custom)]
fn c03_client_challenge() {
    let name = any_name(16);
    let pw = any_name(16);
    let g: u8 = kani::any();
    let n: [u8; 32] = kani::any();
    let b_pub = sih::any_valid_public_key();
    let salt: [u8; 32] = kani::any();
    let ch = SrpClientChallenge::new(name.clone(), pw.clone(), g, n, b_pub, salt);
    // C15: a is a fresh 32-byte draw and is what A is computed from
    assert!(verif_oracle::n_draws() == 1 && verif_oracle::draw_len(0) == 32, "C15: the client does not draw a fresh 32-byte private key");
    let a = verif_oracle::draw_bytes(0);
    let (used_a, _) = verif_oracle::ghost_load(6);
    let mut i = 0;
    while i < 32 {
        assert!(used_a[i] == a[i], "C15: A was computed from another private key than the fresh draw");
        i += 1;
    }
    // specification through the same uninterpreted functions
    let gen = || Generator::from(g);
    let prime = || LargeSafePrime::from_le_bytes(n);
    let a_pub = match sch::stub_client_public_key(&PrivateKey::from_le_bytes(a), &gen(), &prime()) {
        Ok(k) => k,
        Err(_) => unreachable!(),
    };
    let x = sih::stub_x(&name, &pw, &Salt::from_le_bytes(salt));
    let u = sih::stub_u(&a_pub, &b_pub);
    let s = sch::stub_client_S(&b_pub, &x, &PrivateKey::from_le_bytes(a), &u, &gen(), &prime());
    let k = sih::stub_interleaved(&s);
    let m1 = sch::stub_client_proof_custom(&name, &k, &a_pub, &b_pub, &Salt::from_le_bytes(salt), prime(), gen());
    assert!(eq32(ch.client_public_key(), a_pub.as_le_bytes()), "C03: client public key is not A(a, g, N) for the announced group");
    assert!(eq40(ch.session_key.as_le_bytes(), k.as_le_bytes()), "C03: client session key is not interleave(S(B, x, a, u, g, N))");
    assert!(eq20(ch.client_proof(), m1.as_le_bytes()), "C03: client proof is not M1(U, K, A, B, salt, N, g)");
    assert!(ch.username == name, "C01: challenge belongs to another username");
    assert!(
        verif_oracle::counter(6) == 2 && verif_oracle::counter(10) == 2 && verif_oracle::counter(11) == 2 && verif_oracle::counter(5) == 2 && verif_oracle::counter(13) == 2 && verif_oracle::counter(4) == 2,
        "harness: a callee of SrpClientChallenge::new was not called exactly once"
    );
    kani::cover!(g != 7, "announced generator other than 7");
    kani::cover!(name.as_ref().len() == 16, "16-byte name");
}
