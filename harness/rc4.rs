// Harnesses and helpers injected as child module `verif_h` of `rc4`.
#![allow(dead_code, unused_imports)]
use super::*;

pub(crate) fn any_rc4() -> Rc4 {
    Rc4 { state: kani::any(), i: kani::any(), j: kani::any() }
}

/// arbitrary keystream window at a concrete position (for the I/O harnesses, which consume at most 12
/// keystream bytes and do not depend on the position): the 12 pad bytes after position `i` are symbolic,
/// the rest of the array (never read by the pad abstraction) is zero.
pub(crate) fn any_rc4_at(i: u8) -> Rc4 {
    let mut state = [0u8; 256];
    let mut k = 1u8;
    while k <= 12 {
        state[i.wrapping_add(k) as usize] = kani::any();
        k += 1;
    }
    Rc4 { state, i, j: kani::any() }
}

pub(crate) fn rc4_same(a: &Rc4, b: &Rc4) -> bool {
    let mut eq = a.i == b.i && a.j == b.j;
    // 8 bytes per iteration keeps the loop bound at 32
    let mut k = 0;
    while k < 256 {
        if a.state[k] != b.state[k]
            || a.state[k + 1] != b.state[k + 1]
            || a.state[k + 2] != b.state[k + 2]
            || a.state[k + 3] != b.state[k + 3]
            || a.state[k + 4] != b.state[k + 4]
            || a.state[k + 5] != b.state[k + 5]
            || a.state[k + 6] != b.state[k + 6]
            || a.state[k + 7] != b.state[k + 7]
        {
            eq = false;
        }
        k += 8;
    }
    eq
}

/// Keystream abstraction for properties that do not depend on RC4 itself (C10, C11, C12): the 256-byte
/// state is read as a one-time pad and `i` as the position in it. Any keystream is a possible pad; equal
/// states give equal keystreams and equal next states, which is what `c09_prga_step` establishes for RC4.
pub(crate) fn pad_apply(r: &mut Rc4, data: &mut [u8]) {
    let mut k = 0;
    while k < data.len() {
        r.i = r.i.wrapping_add(1);
        data[k] ^= r.state[r.i as usize];
        k += 1;
    }
}

pub(crate) fn pos(r: &Rc4) -> u8 {
    r.i
}

/// a keyed-looking cipher tagged with 16 bytes (recording stub for InnerCrypto::new)
pub(crate) fn tagged(key: &[u8; 16]) -> Rc4 {
    let mut state = [0u8; 256];
    let mut k = 0;
    while k < 16 {
        state[k] = key[k];
        k += 1;
    }
    Rc4 { state, i: 0, j: 0 }
}

pub(crate) fn tag(r: &Rc4) -> [u8; 16] {
    let mut t = [0u8; 16];
    let mut k = 0;
    while k < 16 {
        t[k] = r.state[k];
        k += 1;
    }
    t
}

/// textbook PRGA step on a plain state
fn ref_step(state: &mut [u8; 256], i: &mut u8, j: &mut u8) -> u8 {
    *i = i.wrapping_add(1);
    *j = j.wrapping_add(state[*i as usize]);
    let t = state[*i as usize];
    state[*i as usize] = state[*j as usize];
    state[*j as usize] = t;
    let idx = state[*i as usize].wrapping_add(state[*j as usize]);
    state[idx as usize]
}

/// C09: one PRGA step from every RC4 state (any 256-byte array, any counters incl. 255 -> 0 wrap, i == j).
#[kani::proof]
#[kani::unwind(258)]
fn c09_prga_step() {
    let mut r = any_rc4();
    let mut st = r.state;
    let mut i = r.i;
    let mut j = r.j;
    let i0 = i;
    let ks = r.pseudo_random_generation();
    let ks_ref = ref_step(&mut st, &mut i, &mut j);
    assert!(ks == ks_ref, "C09: keystream byte differs from the RC4 PRGA");
    assert!(r.i == i && r.j == j, "C09: RC4 counters differ from the PRGA");
    let mut k = 0;
    while k < 256 {
        assert!(r.state[k] == st[k], "C09: RC4 state differs from the PRGA");
        k += 1;
    }
    kani::cover!(i0 == 255, "counter i wraps");
    kani::cover!(i == j, "i == j (swap with itself)");
}

/// C09: an N-byte keystream application is N applications of the step function XORed onto the data
/// (the step function itself is c09_prga_step).
fn apply_is_steps<const N: usize>(r0: Rc4) {
    let data: [u8; N] = kani::any();
    let mut r = r0.clone();
    let mut out = data;
    r.apply_keystream(&mut out);
    let mut q = r0.clone();
    let mut k = 0;
    while k < N {
        let ks = q.pseudo_random_generation();
        assert!(out[k] == data[k] ^ ks, "C09: byte of a multi-byte call is not data XOR keystream step");
        k += 1;
    }
    assert!(rc4_same(&r, &q), "C09: state after a multi-byte call differs from N steps");
}

/// from every state, calls of 0 and 1 bytes
#[kani::proof]
#[kani::unwind(258)]
fn c09_apply_is_steps() {
    apply_is_steps::<0>(any_rc4());
    let r = any_rc4();
    let i0 = r.i;
    apply_is_steps::<1>(r);
    kani::cover!(i0 == 255, "counter wraps");
}

/// from every state, a call of 2 bytes (thorough tier: 28 min)
#[kani::proof]
#[kani::unwind(258)]
fn c09_apply_is_steps_2() {
    let r = any_rc4();
    let i0 = r.i;
    apply_is_steps::<2>(r);
    kani::cover!(i0 == 254, "counter wraps inside the call");
}

fn identity_rc4() -> Rc4 {
    let mut state = [0u8; 256];
    let mut k = 0;
    while k < 256 {
        state[k] = k as u8;
        k += 1;
    }
    Rc4 { state, i: kani::any(), j: kani::any() }
}

/// from the identity permutation with arbitrary counters, a call of 4 bytes
#[kani::proof]
#[kani::unwind(258)]
fn c09_apply_is_steps_4() {
    let r = identity_rc4();
    let i0 = r.i;
    apply_is_steps::<4>(r);
    kani::cover!(i0 == 253, "counter wraps inside the call");
}

/// from the identity permutation with arbitrary counters, a call of 8 bytes (thorough tier: 13 min)
#[kani::proof]
#[kani::unwind(258)]
fn c09_apply_is_steps_8() {
    let r = identity_rc4();
    let i0 = r.i;
    apply_is_steps::<8>(r);
    kani::cover!(i0 == 250, "counter wraps inside the call");
}

/// C09: one call of 300 bytes made when the counter is not a multiple of 256 equals 300 PRGA steps.
/// The RC4 state is concrete here (KSA of a fixed 20-byte key, then 5 bytes consumed); the data is symbolic.
#[kani::proof]
#[kani::unwind(302)]
fn c09_apply_long() {
    const N: usize = 300;
    let key: [u8; 20] = [
        0x3b, 0x91, 0x07, 0xe4, 0x5d, 0xc2, 0x18, 0x6f, 0xa0, 0x2e, 0x77, 0x49, 0xd3, 0x8c, 0x15, 0xfa, 0x60, 0xbe, 0x04, 0x99,
    ];
    // textbook KSA, computed by the harness
    let mut st = [0u8; 256];
    let mut k = 0;
    while k < 256 {
        st[k] = k as u8;
        k += 1;
    }
    let mut jj = 0u8;
    let mut k = 0;
    while k < 256 {
        jj = jj.wrapping_add(st[k]).wrapping_add(key[k % 20]);
        let t = st[k];
        st[k] = st[jj as usize];
        st[jj as usize] = t;
        k += 1;
    }
    let mut i = 0u8;
    let mut j = 0u8;
    let mut k = 0;
    while k < 5 {
        let _ = ref_step(&mut st, &mut i, &mut j);
        k += 1;
    }
    let mut r = Rc4 { state: st, i, j };
    let data: [u8; N] = kani::any();
    let mut out = data;
    r.apply_keystream(&mut out);
    let mut k = 0;
    while k < N {
        let ks = ref_step(&mut st, &mut i, &mut j);
        assert!(out[k] == data[k] ^ ks, "C09: byte of a 300-byte call differs from the PRGA");
        k += 1;
    }
    assert!(r.i == i && r.j == j, "C09: counters after a 300-byte call differ");
    let mut k = 0;
    while k < 256 {
        assert!(r.state[k] == st[k], "C09: state after a 300-byte call differs");
        k += 1;
    }
    kani::cover!(true, "long call");
}

/// C09: the key schedule on a concrete 20-byte key equals the textbook KSA (the all-keys version is out of reach).
#[kani::proof]
#[kani::unwind(258)]
fn c09_ksa_concrete() {
    let key: [u8; 20] = [
        0x3b, 0x91, 0x07, 0xe4, 0x5d, 0xc2, 0x18, 0x6f, 0xa0, 0x2e, 0x77, 0x49, 0xd3, 0x8c, 0x15, 0xfa, 0x60, 0xbe, 0x04, 0x99,
    ];
    let r = Rc4::new(&key);
    let mut st = [0u8; 256];
    let mut k = 0;
    while k < 256 {
        st[k] = k as u8;
        k += 1;
    }
    let mut jj = 0u8;
    let mut k = 0;
    while k < 256 {
        jj = jj.wrapping_add(st[k]).wrapping_add(key[k % 20]);
        let t = st[k];
        st[k] = st[jj as usize];
        st[jj as usize] = t;
        k += 1;
    }
    assert!(r.i == 0 && r.j == 0, "C09: counters after key scheduling are not zero");
    let mut k = 0;
    while k < 256 {
        assert!(r.state[k] == st[k], "C09: key schedule differs from the RC4 KSA");
        k += 1;
    }
    kani::cover!(true, "ksa");
}

// ---- recording stubs for the wiring harness (C09) ----
pub(crate) fn stub_new(key: &[u8]) -> Rc4 {
    verif_oracle::bump(0);
    verif_oracle::ghost_store(0, key);
    // a recognisable state: everything zero except a tag
    let mut state = [0u8; 256];
    state[0] = 0xA5;
    Rc4 { state, i: 0, j: 0 }
}

pub(crate) fn stub_apply(r: &mut Rc4, stream: &mut [u8]) {
    verif_oracle::bump(1);
    // accumulate the number of keystream bytes consumed so far (however many calls are used)
    let (prev, plen) = verif_oracle::ghost_load(1);
    let before = if plen == 4 { u32::from_le_bytes([prev[0], prev[1], prev[2], prev[3]]) } else { 0 };
    let total = before.wrapping_add(stream.len() as u32).to_le_bytes();
    verif_oracle::ghost_store(1, &total);
    // only a keyed cipher may be advanced
    assert!(r.state[0] == 0xA5, "C09: keystream applied to a cipher that was not keyed by Rc4::new");
    r.state[1] = r.state[1].wrapping_add(1);
}

pub(crate) fn is_stub_after_one_apply(r: &Rc4) -> bool {
    r.state[0] == 0xA5 && r.state[1] >= 1 && r.i == 0 && r.j == 0
}

// ---- keystream as an uninterpreted function of the key (matrix card, C18) ----
/// Kani stub for `Rc4::new`: the first 40 keystream bytes are an uninterpreted function of the key.
pub(crate) fn stub_new_pad(key: &[u8]) -> Rc4 {
    verif_oracle::bump(3);
    let o = verif_oracle::uf(verif_oracle::USER + 60, &[key]);
    let mut state = [0u8; 256];
    let mut k = 0;
    while k < 40 {
        state[k + 1] = o[k];
        k += 1;
    }
    Rc4 { state, i: 0, j: 0 }
}

// ---- constructor-level stream harness (C09): RC4 as a position-indexed pad ----
pub(crate) fn stub_new_any_pad(_key: &[u8]) -> Rc4 {
    let state: [u8; 256] = kani::any();
    // remember the pad for the harness (ghost slots hold 64 bytes each)
    verif_oracle::ghost_store(4, &state[0..64]);
    verif_oracle::ghost_store(5, &state[64..128]);
    verif_oracle::ghost_store(6, &state[128..192]);
    verif_oracle::ghost_store(7, &state[192..256]);
    Rc4 { state, i: 0, j: 0 }
}
pub(crate) fn last_pad() -> [u8; 256] {
    let mut p = [0u8; 256];
    let mut s = 0;
    while s < 4 {
        let (g, _) = verif_oracle::ghost_load(4 + s);
        let mut k = 0;
        while k < 64 {
            p[s * 64 + k] = g[k];
            k += 1;
        }
        s += 1;
    }
    p
}
