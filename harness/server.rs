// Harnesses injected as child module `verif_h` of `server`.
#![allow(dead_code, unused_imports)]
use super::*;
// explicit imports: the harness must not depend on which names the parent module happens to import
#[allow(unused_imports)]
use crate::error::{InvalidPublicKeyError, MatchProofsError};
#[allow(unused_imports)]
use crate::key::{PrivateKey, Proof, PublicKey, ReconnectData, SKey, Salt, SessionKey, Sha1Hash, Verifier};
#[allow(unused_imports)]
use crate::normalized_string::NormalizedString;
#[allow(unused_imports)]
use crate::primes::{Generator, KValue, LargeSafePrime};
use crate::normalized_string::verif_h::{any_name, name_bytes};

pub(crate) fn eq20(a: &[u8; 20], b: &[u8; 20]) -> bool {
    let mut eq = true;
    let mut i = 0;
    while i < 20 {
        if a[i] != b[i] {
            eq = false;
        }
        i += 1;
    }
    eq
}
pub(crate) fn eq16(a: &[u8; 16], b: &[u8; 16]) -> bool {
    let mut eq = true;
    let mut i = 0;
    while i < 16 {
        if a[i] != b[i] {
            eq = false;
        }
        i += 1;
    }
    eq
}
pub(crate) fn eq32(a: &[u8; 32], b: &[u8; 32]) -> bool {
    let mut eq = true;
    let mut i = 0;
    while i < 32 {
        if a[i] != b[i] {
            eq = false;
        }
        i += 1;
    }
    eq
}
pub(crate) fn eq40(a: &[u8; 40], b: &[u8; 40]) -> bool {
    let mut eq = true;
    let mut i = 0;
    while i < 40 {
        if a[i] != b[i] {
            eq = false;
        }
        i += 1;
    }
    eq
}

pub(crate) fn mk_server(name: NormalizedString, k: [u8; 40], challenge: [u8; 16]) -> SrpServer {
    SrpServer {
        username: name,
        session_key: SessionKey::from_le_bytes(k),
        reconnect_challenge_data: ReconnectData::from_le_bytes(challenge),
    }
}

/// C05: one reconnect attempt from an arbitrary session state.
#[kani::proof]
#[kani::unwind(100)]
#[kani::stub(core::str::from_utf8, verif_oracle::from_utf8_model)]
fn c05_attempt() {
    let name = any_name(16);
    let k: [u8; 40] = kani::any();
    let challenge: [u8; 16] = kani::any();
    let cd: [u8; 16] = kani::any();
    let proof: [u8; 20] = kani::any();
    let (nb, nl) = name_bytes(&name);
    let expected = verif_oracle::sha1_of(&[&nb[..nl], &cd, &challenge, &k]);
    let mut srv = mk_server(name.clone(), k, challenge);
    let r = srv.verify_reconnection_attempt(cd, proof);
    assert!(r == eq20(&proof, &expected), "C05: attempt accepted <=> proof == SHA-1(name | client data | current challenge | session key) violated");
    // every attempt replaces the challenge by a fresh 16-byte draw
    assert!(verif_oracle::n_draws() == 1 && verif_oracle::draw_len(0) == 16, "C05: the attempt did not draw a fresh 16-byte challenge");
    let d = verif_oracle::draw_bytes(0);
    let mut fresh = [0u8; 16];
    let mut i = 0;
    while i < 16 {
        fresh[i] = d[i];
        i += 1;
    }
    assert!(eq16(srv.reconnect_challenge_data(), &fresh), "C05: the challenge on offer after the attempt is not the fresh draw");
    assert!(eq40(srv.session_key(), &k), "C05: the attempt changed the session key");
    assert!(srv.username == name, "C05: the attempt changed the username");
    kani::cover!(r, "accepted");
    kani::cover!(!r && proof[19] != expected[19], "refused: last byte differs");
    let mut zero = true;
    let mut i = 0;
    while i < 16 {
        if cd[i] != 0 {
            zero = false;
        }
        i += 1;
    }
    kani::cover!(r && zero, "accepted with an all-zero client challenge");
}

/// C05: a legitimate client reconnects any number of times in a row; a captured pair is not accepted
/// again (under: the refreshed challenge differs from the old one, SHA-1 collision free on the queries made).
#[kani::proof]
#[kani::unwind(100)]
#[kani::stub(core::str::from_utf8, verif_oracle::from_utf8_model)]
fn c05_roundtrip() {
    let name = any_name(16);
    let k: [u8; 40] = kani::any();
    let challenge: [u8; 16] = kani::any();
    let mut srv = mk_server(name.clone(), k, challenge);
    let cli = crate::client::verif_h::mk_client(name.clone(), k);
    let c1 = *srv.reconnect_challenge_data();
    let v1 = cli.calculate_reconnect_values(c1);
    assert!(srv.verify_reconnection_attempt(v1.challenge_data, v1.proof), "C05: the legitimate client's first reconnect was refused");
    let c2 = *srv.reconnect_challenge_data();
    let v2 = cli.calculate_reconnect_values(c2);
    assert!(srv.verify_reconnection_attempt(v2.challenge_data, v2.proof), "C05: the legitimate client's second reconnect was refused");
    // replay of the first pair against the third challenge
    let c3 = *srv.reconnect_challenge_data();
    let replay = srv.verify_reconnection_attempt(v1.challenge_data, v1.proof);
    verif_oracle::assume_collision_free();
    if !eq16(&c3, &c1) {
        assert!(!replay, "C05: a captured challenge/proof pair was accepted a second time");
    }
    kani::cover!(!eq16(&c3, &c1) && !replay, "replay refused");
    kani::cover!(eq16(&c2, &c1), "the RNG may repeat a challenge");
}

// =================================================================================================
// C02 / C15: the server's decision (callees replaced by uninterpreted stubs; their own lemmas are c03_*)
// =================================================================================================
use crate::srp_internal::verif_h as sih;

pub(crate) fn mk_proof(name: NormalizedString, b_pub: PublicKey, salt: [u8; 32], b: [u8; 32], v: [u8; 32]) -> SrpProof {
    SrpProof {
        username: name,
        server_public_key: b_pub,
        salt: Salt::from_le_bytes(salt),
        server_private_key: PrivateKey::from_le_bytes(b),
        password_verifier: Verifier::from_le_bytes(v),
    }
}

#[kani::proof]
#[kani::unwind(42)]
#[kani::stub(core::str::from_utf8, verif_oracle::from_utf8_model)]
#[kani::stub(crate::srp_internal::calculate_session_key, sih::stub_session_key)]
#[kani::stub(crate::srp_internal::calculate_client_proof, sih::stub_client_proof)]
#[kani::stub(crate::srp_internal::calculate_server_proof, sih::stub_server_proof)]
fn c02_server_decision() {
    let name = any_name(16);
    let b_pub = sih::any_valid_public_key();
    let a_pub = sih::any_valid_public_key();
    let salt: [u8; 32] = kani::any();
    let b: [u8; 32] = kani::any();
    let v: [u8; 32] = kani::any();
    let m1: [u8; 20] = kani::any();
    // specification through the same uninterpreted functions
    let k = sih::stub_session_key(&a_pub, &b_pub, &Verifier::from_le_bytes(v), &PrivateKey::from_le_bytes(b));
    let exp = sih::stub_client_proof(&name, &k, &a_pub, &b_pub, &Salt::from_le_bytes(salt));
    let proof = mk_proof(name.clone(), b_pub, salt, b, v);
    assert!(eq32(proof.server_public_key(), b_pub.as_le_bytes()) && eq32(proof.salt(), &salt), "C02: SrpProof accessors do not return the stored values");
    match proof.into_server(a_pub, m1) {
        Ok((srv, m2)) => {
            assert!(eq20(&m1, exp.as_le_bytes()), "C02: the server accepted a proof that is not the expected M1");
            let exp2 = sih::stub_server_proof(&a_pub, &Proof::from_le_bytes(m1), &k);
            assert!(eq20(&m2, exp2.as_le_bytes()), "C02: server proof is not M2(A, M1, K)");
            assert!(eq40(srv.session_key(), k.as_le_bytes()), "C02: server session key is not K(A, B, v, b)");
            assert!(srv.username == name, "C02: session belongs to another username");
            // C15: the first reconnect challenge is a fresh 16-byte draw
            assert!(verif_oracle::n_draws() == 1 && verif_oracle::draw_len(0) == 16, "C15: accepting a login does not draw a fresh 16-byte reconnect challenge");
            let d = verif_oracle::draw_bytes(0);
            let mut i = 0;
            while i < 16 {
                assert!(srv.reconnect_challenge_data()[i] == d[i], "C15: reconnect challenge is not the fresh draw");
                i += 1;
            }
            assert!(verif_oracle::counter(9) == 2, "harness: calculate_server_proof not called exactly once");
            kani::cover!(true, "accepted");
        }
        Err(e) => {
            assert!(!eq20(&m1, exp.as_le_bytes()), "C02: the server refused the expected M1");
            assert!(eq20(&e.client_proof, &m1), "C02: error does not carry the presented proof");
            assert!(eq20(&e.server_proof, exp.as_le_bytes()), "C02: error does not carry the server's proof");
            let mut diff = 0u32;
            let mut i = 0;
            while i < 20 {
                diff += (m1[i] ^ exp.as_le_bytes()[i]).count_ones();
                i += 1;
            }
            kani::cover!(diff == 1 && m1[19] != exp.as_le_bytes()[19], "single-bit change in the last byte refused");
            kani::cover!(diff == 2 && m1[0] != exp.as_le_bytes()[0] && m1[4] != exp.as_le_bytes()[4], "same bit flipped in two words refused");
        }
    }
    assert!(verif_oracle::counter(14) == 2 && verif_oracle::counter(15) == 2, "harness: a callee of into_server was not called exactly once");
}

/// C01/C03/C15: registration and challenge construction wire the right values into the right places.
#[kani::proof]
#[kani::unwind(42)]
#[kani::stub(core::str::from_utf8, verif_oracle::from_utf8_model)]
#[kani::stub(crate::srp_internal::calculate_password_verifier, sih::stub_verifier)]
#[kani::stub(crate::srp_internal::calculate_server_public_key, sih::stub_server_public_key)]
fn c03_registration() {
    let name = any_name(16);
    let pw = any_name(16);
    let ver = SrpVerifier::from_username_and_password(name.clone(), pw.clone());
    // C15: the salt is a fresh 32-byte draw
    assert!(verif_oracle::n_draws() == 1 && verif_oracle::draw_len(0) == 32, "C15: registration does not draw a fresh 32-byte salt");
    let salt = verif_oracle::draw_bytes(0);
    assert!(eq32(ver.salt(), &salt), "C15: the salt is not the fresh draw");
    let v = sih::stub_verifier(&name, &pw, &Salt::from_le_bytes(salt));
    assert!(eq32(ver.password_verifier(), &v), "C03: stored verifier is not v(U, P, salt)");
    assert!(ver.username == name && ver.username() == name.as_ref(), "C01: stored username differs");
    // export / re-import
    let again = SrpVerifier::from_database_values(name.clone(), *ver.password_verifier(), *ver.salt());
    assert!(again == ver, "C01: re-imported account record differs from the original");
    // challenge
    let proof = again.into_proof();
    assert!(verif_oracle::n_draws() == 2 && verif_oracle::draw_len(1) == 32, "C15: into_proof does not draw a fresh 32-byte private key");
    let b = verif_oracle::draw_bytes(1);
    assert!(eq32(proof.server_private_key.as_le_bytes(), &b), "C15: the server private key is not the fresh draw");
    let (used_b, _) = verif_oracle::ghost_load(7);
    let mut i = 0;
    while i < 32 {
        assert!(used_b[i] == b[i], "C15: B was computed from another private key than the fresh draw");
        i += 1;
    }
    let expected_b = match sih::stub_server_public_key(&Verifier::from_le_bytes(v), &PrivateKey::from_le_bytes(b)) {
        Ok(k) => k,
        Err(_) => unreachable!(),
    };
    assert!(eq32(proof.server_public_key(), expected_b.as_le_bytes()), "C03: B is not B(v, b)");
    assert!(eq32(proof.salt(), &salt) && eq32(proof.password_verifier.as_le_bytes(), &v) && proof.username == name, "C01: SrpProof does not carry the account record");
    assert!(verif_oracle::counter(8) == 2 && verif_oracle::counter(7) == 2, "harness: a callee was not called exactly once");
    kani::cover!(name.as_ref().len() == 16 && pw.as_ref().len() == 1, "long name, short password");
}
