// Harnesses injected as child module `verif_h` of `matrix_card` (feature `matrix-card`).
#![allow(dead_code, unused_imports)]
use super::*;

/// C18: the cell returned for (x, y) is the cell printed at row y, column x: same position in the card
/// data as the (y*width + x)-th printed chunk, `digit_count` digits long; no panic for on-card coordinates.
#[kani::proof]
#[kani::unwind(6)]
fn c18_cells() {
    let w: u8 = kani::any();
    let h: u8 = kani::any();
    let d: u8 = kani::any();
    kani::assume(w >= 1 && h >= 1 && (w as usize) * (h as usize) <= 255 && d >= 1 && d <= 4);
    let len = MatrixCard::get_matrix_card_size(d, h, w);
    assert!(len == d as usize * w as usize * h as usize, "C18: card size is not digits * width * height");
    let data = vec![0u8; len];
    let card = match MatrixCard::from_data(d, h, w, data) {
        Some(c) => c,
        None => {
            assert!(false, "C18: from_data refused data of the right size");
            unreachable!()
        }
    };
    assert!(card.width() == w && card.height() == h && card.digit_count() == d && card.data().len() == len, "C18: accessors differ from the constructor arguments");
    let x: u8 = kani::any();
    let y: u8 = kani::any();
    kani::assume(x < w && y < h);
    let cell = y as usize * w as usize + x as usize;
    let off = cell * d as usize;
    let got = card.get_number_at_coordinates(x, y);
    assert!(got.len() == d as usize, "C18: a cell does not have digit_count digits");
    assert!(core::ptr::eq(got.as_ptr(), card.data()[off..].as_ptr()), "C18: cell (x, y) is not at offset (y*width + x) * digit_count");
    // what the printer prints for that cell (the chunk, before formatting)
    let mut p = card.to_printer();
    match p.chunks.nth(cell) {
        Some(chunk) => {
            assert!(chunk.len() == d as usize && core::ptr::eq(chunk.as_ptr(), got.as_ptr()), "C18: cell (x, y) is not what is printed at row y, column x");
        }
        None => assert!(false, "C18: the printer has fewer cells than the card"),
    }
    // two different coordinates never overlap
    let x2: u8 = kani::any();
    let y2: u8 = kani::any();
    kani::assume(x2 < w && y2 < h && (x2 != x || y2 != y));
    let other = card.get_number_at_coordinates(x2, y2);
    let a0 = got.as_ptr() as usize;
    let b0 = other.as_ptr() as usize;
    assert!(a0 + got.len() <= b0 || b0 + other.len() <= a0, "C18: two cells overlap");
    kani::cover!(cell * d as usize > 255, "offset beyond 255");
    kani::cover!(x >= 1 && y >= 1 && w >= 3, "interior cell");
    kani::cover!(w == 8 && h == 10 && d == 2, "the usual 8x10 card");
}

/// from_data refuses data of the wrong size (any size, any claimed dimensions)
#[kani::proof]
#[kani::unwind(6)]
fn c18_from_data() {
    let w: u8 = kani::any();
    let h: u8 = kani::any();
    let d: u8 = kani::any();
    let len: usize = kani::any();
    kani::assume(len <= 64);
    let data = vec![0u8; len];
    let r = MatrixCard::from_data(d, h, w, data);
    assert!(r.is_some() == (len == d as usize * w as usize * h as usize), "C18: from_data accepts exactly data of size digits * width * height");
    kani::cover!(r.is_some() && len > 0, "accepted");
    kani::cover!(r.is_none(), "refused");
}

fn mk_verifier(w: u8, h: u8, count: u8, seed: u64) -> MatrixCardVerifier {
    let key: [u8; 16] = kani::any();
    MatrixCardVerifier {
        challenge_count: count,
        height: h,
        width: w,
        coordinates: generate_coordinates(w, h, count, seed),
        hmac: Hmac::<Sha1>::new_from_slice(&key).unwrap(),
        rc4: crate::rc4::verif_h::any_rc4(),
    }
}

/// C18: challenged coordinates for rounds 0..count-1 are on the card and pairwise distinct; any other
/// round yields None, never a panic. Dimensions concrete, count / seed / rounds symbolic.
fn coordinates<const W: u8, const H: u8>(count: u8, seed_bits: u32) {
    let seed: u64 = kani::any();
    kani::assume(seed_bits >= 64 || seed < (1u64 << seed_bits));
    assert!(count >= 1 && (count as u16) <= (W as u16) * (H as u16), "harness: challenge count outside the card");
    let mut v = mk_verifier(W, H, count, seed);
    let r1: u8 = kani::any();
    let r2: u8 = kani::any();
    let c1 = v.get_matrix_coordinates(r1);
    let c2 = v.get_matrix_coordinates(r2);
    match c1 {
        Some((x, y)) => {
            assert!(r1 < count, "C18: coordinates for a round outside 0..count");
            assert!(x < W && y < H, "C18: challenged coordinates are not on the card");
            if let Some((x2, y2)) = c2 {
                if r1 != r2 {
                    assert!(x != x2 || y != y2, "C18: two rounds challenge the same cell");
                }
            }
            kani::cover!(r1 == count - 1, "last round");
        }
        None => {
            assert!(r1 >= count, "C18: no coordinates for a round inside 0..count");
            kani::cover!(r1 == count, "round equal to the challenge count");
            kani::cover!(r1 == 255, "round 255");
        }
    }
    kani::cover!(count == 1 || (c1.is_some() && c2.is_some() && r1 != r2 && seed == 0), "two rounds with a used-up seed");
}

/// challenge counts are enumerated concretely (the divisors `cells - i` are then constants)
#[kani::proof]
#[kani::unwind(42)]
fn c18_coordinates_2x2() {
    coordinates::<2, 2>(1, 64);
    coordinates::<2, 2>(2, 64);
    coordinates::<2, 2>(3, 64);
    coordinates::<2, 2>(4, 64);
}
#[kani::proof]
#[kani::unwind(42)]
fn c18_coordinates_3x3() {
    coordinates::<3, 3>(1, 64);
    coordinates::<3, 3>(2, 64);
    coordinates::<3, 3>(3, 64);
}
#[kani::proof]
#[kani::unwind(82)]
fn c18_coordinates_8x10() {
    coordinates::<8, 10>(1, 64);
    coordinates::<8, 10>(2, 64);
}
#[kani::proof]
#[kani::unwind(42)]
fn c18_coordinates_3x3_full() {
    coordinates::<3, 3>(9, 64);
}

/// uninterpreted stub for `generate_coordinates` (its own lemma: c18_coordinates_*): some `count`
/// pairwise distinct cells on the card, a function of (width, height, count, seed)
fn stub_coordinates(width: u8, height: u8, challenge_count: u8, seed: u64) -> Vec<u8> {
    verif_oracle::bump(4);
    let o = verif_oracle::uf(verif_oracle::USER + 80, &[&[width, height, challenge_count], &seed.to_le_bytes()]);
    let cells = width as u16 * height as u16;
    assert!(challenge_count <= 2, "harness: stub_coordinates supports at most two challenges");
    let mut v = vec![0u8; challenge_count as usize];
    let mut i = 0;
    while i < challenge_count as usize {
        kani::assume((o[i] as u16) < cells);
        v[i] = o[i];
        i += 1;
    }
    if challenge_count == 2 {
        kani::assume(o[0] != o[1]);
    }
    v
}

/// C15: the matrix seed is a fresh 8-byte draw; every card digit is one draw reduced into 0..=9.
#[kani::proof]
#[kani::unwind(12)]
fn c15_matrix_generators() {
    let s = get_matrix_card_seed();
    assert!(verif_oracle::n_draws() == 1 && verif_oracle::draw_len(0) == 8, "C15: matrix seed is not one fresh 8-byte draw");
    let d = verif_oracle::draw_bytes(0);
    assert!(s == u64::from_le_bytes([d[0], d[1], d[2], d[3], d[4], d[5], d[6], d[7]]), "C15: matrix seed is not the drawn value");
    let card = MatrixCard::new(2, 1, 2);
    assert!(card.data().len() == 4 && verif_oracle::n_draws() == 5, "C15: card digits are not one draw each");
    let mut i = 0;
    while i < 4 {
        assert!(card.data()[i] <= 9, "C15: card digit outside 0..9");
        assert!(verif_oracle::draw_len(1 + i) == 1 && card.data()[i] == verif_oracle::draw_bytes(1 + i)[0] % 10, "C15: card digit is not derived from its own fresh draw");
        i += 1;
    }
    kani::cover!(card.data()[0] == 9 && card.data()[3] == 0, "digits 9 and 0");
}

/// C18: a client that enters the digits printed at the challenged cells produces a proof the server-side
/// check accepts; any other digit sequence is refused (HMAC collision-free on the queries made).
/// 2x2 card, 1..2 digits per cell, 1..2 challenges; seed, session key and card contents symbolic.
/// RC4 is abstracted: keystream = uninterpreted function of the key (same key => same keystream).
fn proof_agreement<const D: usize, const COUNT: u8>() {
    const W: u8 = 2;
    const H: u8 = 2;
    let seed: u64 = kani::any();
    let sk: [u8; 40] = kani::any();
    let contents: [u8; 8] = kani::any();
    let card = MatrixCard::from_data(D as u8, H, W, contents[..D * 4].to_vec()).unwrap();

    // the user: asks for the coordinates round by round, reads the printed cell, types its digits
    let mut v = MatrixCardVerifier::new(COUNT, H, seed, W, &sk);
    let wrong_at: u8 = kani::any(); // index of the typed digit that a second user gets wrong
    kani::assume((wrong_at as usize) < D * COUNT as usize);
    let mut w = v.clone();
    let mut typed = 0u8;
    let mut round = 0u8;
    while round < COUNT {
        let (x, y) = v.get_matrix_coordinates(round).unwrap();
        let off = (y as usize * W as usize + x as usize) * D;
        let mut k = 0usize;
        while k < D {
            let digit = contents[off + k];
            v.enter_value(digit);
            w.enter_value(if typed == wrong_at { digit ^ 1 } else { digit });
            typed += 1;
            k += 1;
        }
        round += 1;
    }
    let proof = v.into_proof();
    let wrong_proof = w.into_proof();
    assert!(verify_matrix_card_hash(&card, COUNT, seed, &sk, &proof), "C18: the server refuses the proof of a user who typed the printed digits");
    verif_oracle::assume_collision_free();
    assert!(!verify_matrix_card_hash(&card, COUNT, seed, &sk, &wrong_proof), "C18: the server accepts a proof computed from another digit sequence");
}

#[kani::proof]
#[kani::unwind(42)]
#[kani::stub(crate::rc4::Rc4::new, crate::rc4::verif_h::stub_new_pad)]
#[kani::stub(crate::rc4::Rc4::apply_keystream, crate::rc4::verif_h::pad_apply)]
#[kani::stub(crate::matrix_card::generate_coordinates, stub_coordinates)]
fn c18_proof_agreement() {
    proof_agreement::<2, 2>();
    kani::cover!(true, "two digits, two challenges");
}

#[kani::proof]
#[kani::unwind(42)]
#[kani::stub(crate::rc4::Rc4::new, crate::rc4::verif_h::stub_new_pad)]
#[kani::stub(crate::rc4::Rc4::apply_keystream, crate::rc4::verif_h::pad_apply)]
#[kani::stub(crate::matrix_card::generate_coordinates, stub_coordinates)]
fn c18_proof_agreement_1x1() {
    proof_agreement::<1, 1>();
    kani::cover!(true, "one digit, one challenge");
}
