// Harnesses injected as child module `verif_h` of `wrath_header`.
#![allow(dead_code, unused_imports)]
use super::*;
use crate::vanilla_header::verif_h::{AnyReader, AnyWriter};
use crate::wrath_header::decrypt::verif_h as dh;
use crate::wrath_header::encrypt::verif_h as eh;
use crate::wrath_header::inner_crypto::verif_h as ich;
use crate::wrath_header::inner_crypto::InnerCrypto;
use std::io::{self, ErrorKind, Read, Write};

// independent copies of the two direction constants (the specification, not the code's consts)
const C2S: [u8; 16] = [0xC2, 0xB3, 0x72, 0x3C, 0xC6, 0xAE, 0xD9, 0xB5, 0x34, 0x3C, 0x53, 0xEE, 0x2F, 0x43, 0x67, 0xCE];
const S2C: [u8; 16] = [0xCC, 0x98, 0xAE, 0x04, 0xE8, 0x97, 0xEA, 0xCA, 0x12, 0xDD, 0xC0, 0x93, 0x42, 0x91, 0x53, 0x57];

fn tag_is(c: &InnerCrypto, k: &[u8; 16]) -> bool {
    let t = ich::inner_tag(c);
    let mut eq = true;
    let mut i = 0;
    while i < 16 {
        if t[i] != k[i] {
            eq = false;
        }
        i += 1;
    }
    eq
}

fn ghost_key_is(sk: &[u8; 40]) -> bool {
    let (g, l) = verif_oracle::ghost_load(2);
    let mut eq = l == 40;
    let mut i = 0;
    while i < 40 {
        if g[i] != sk[i] {
            eq = false;
        }
        i += 1;
    }
    eq
}

/// C09: the four halves use the right direction constants and the session key; the client's encrypter
/// pairs with the server's decrypter and vice versa; the two directions use different constants.
#[kani::proof]
#[kani::unwind(80)]
#[kani::stub(core::str::from_utf8, verif_oracle::from_utf8_model)]
#[kani::stub(crate::wrath_header::inner_crypto::InnerCrypto::new, ich::stub_inner_new)]
fn c09_directions() {
    let sk: [u8; 40] = kani::any();
    let ce = ClientEncrypterHalf::new(sk);
    assert!(tag_is(eh::client_enc_inner(&ce), &C2S) && ghost_key_is(&sk), "C09: client encrypter is not keyed with the client-to-server constant and the session key");
    let sd = ServerDecrypterHalf::new(sk);
    assert!(tag_is(dh::server_dec_inner(&sd), &C2S) && ghost_key_is(&sk), "C09: server decrypter is not keyed with the client-to-server constant and the session key");
    let se = ServerEncrypterHalf::new(sk);
    assert!(tag_is(eh::server_enc_inner(&se), &S2C) && ghost_key_is(&sk), "C09: server encrypter is not keyed with the server-to-client constant and the session key");
    let cd = ClientDecrypterHalf::new(sk);
    assert!(tag_is(dh::client_dec_inner(&cd), &S2C) && ghost_key_is(&sk), "C09: client decrypter is not keyed with the server-to-client constant and the session key");
    assert!(verif_oracle::counter(2) == 4, "C09: a half was not built through InnerCrypto::new exactly once");

    // the public constructors hand out these halves
    let name = crate::normalized_string::verif_h::any_name(16);
    let (_p, c) = ProofSeed { seed: kani::any() }.into_client_header_crypto(&name, sk, kani::any());
    assert!(tag_is(eh::client_enc_inner(&c.encrypt), &C2S) && tag_is(dh::client_dec_inner(&c.decrypt), &S2C), "C09: ClientCrypto directions wrong");
    match (ProofSeed { seed: kani::any() }).into_server_header_crypto(&name, sk, kani::any(), kani::any()) {
        Ok(s) => {
            assert!(tag_is(eh::server_enc_inner(&s.encrypt), &S2C) && tag_is(dh::server_dec_inner(&s.decrypt), &C2S), "C09: ServerCrypto directions wrong");
            assert!(ghost_key_is(&sk), "C09: ServerCrypto not keyed with the session key");
            kani::cover!(true, "server accepted");
        }
        Err(_) => {
            kani::cover!(true, "server refused");
        }
    }
}

// =================================================================================================
// C10: server headers of both lengths (keystream abstracted as a symbolic pad)
// =================================================================================================

/// returns (n, bytes) of the header the server emits from `se`
fn emit(se: &mut ServerEncrypterHalf, size: u32, opcode: u16) -> (usize, [u8; 5]) {
    let hdr = se.encrypt_server_header(size, opcode);
    let n = hdr.len();
    let mut b = [0u8; 5];
    let mut i = 0;
    while i < 5 {
        if i < n {
            b[i] = hdr[i];
        }
        i += 1;
    }
    (n, b)
}

#[kani::proof]
#[kani::unwind(258)]
#[kani::stub(crate::wrath_header::inner_crypto::InnerCrypto::apply, ich::pad_apply_inner)]
fn c10_roundtrip() {
    // paired state: the client's decrypter has the server encrypter's keystream and position
    let ks = ich::any_inner();
    let mut se = eh::mk_server_enc(ks.clone(), kani::any());
    let cd0 = dh::mk_client_dec(ks.clone(), kani::any());
    let size: u32 = kani::any();
    let opcode: u16 = kani::any();
    kani::assume(size <= 0x7F_FFFF);

    let (n, b) = emit(&mut se, size, opcode);
    assert!((n == 4) == (size <= 0x7FFF), "C10: header length does not follow the 0x7FFF threshold");
    assert!(n == 4 || n == 5, "C10: header is neither 4 nor 5 bytes");
    // first plaintext byte carries the marker exactly for 5-byte headers
    let mut first = [b[0]];
    let mut probe = ks.clone();
    probe.apply(&mut first); // through the (stubbed) keystream application, consistent with the code
    assert!((first[0] & 0x80 != 0) == (n == 5), "C10: 0x80 marker does not match the header length");

    // path A: read-based call consumes exactly the emitted bytes
    let mut cd1 = cd0.clone();
    let mut rd: &[u8] = &b[..n];
    match cd1.read_and_decrypt_server_header(&mut rd) {
        Ok(h) => {
            assert!(h.size == size && h.opcode == opcode, "C10: read-based decode differs from what was sent");
            assert!(rd.is_empty(), "C10: read-based decode did not consume exactly the emitted bytes");
        }
        Err(e) => {
            core::mem::forget(e);
            assert!(false, "C10: read-based decode failed on a complete header");
        }
    }
    assert!(ich::inner_same(dh::client_dec_inner(&cd1), eh::server_enc_inner(&se)), "C10: stream out of step after the read-based decode");

    // path B: attempt, then one more byte
    let mut cd2 = cd0.clone();
    match cd2.attempt_decrypt_server_header([b[0], b[1], b[2], b[3]]) {
        WrathServerAttempt::Header(h) => {
            assert!(n == 4, "C10: attempt returned a header for a 5-byte header");
            assert!(h.size == size && h.opcode == opcode, "C10: attempt decode differs from what was sent");
            kani::cover!(size == 0x7FFF, "largest small header");
        }
        WrathServerAttempt::AdditionalByteRequired => {
            assert!(n == 5, "C10: attempt asked for another byte on a 4-byte header");
            let h = cd2.decrypt_large_server_header(b[4]);
            assert!(h.size == size && h.opcode == opcode, "C10: two-step decode differs from what was sent");
            kani::cover!(size == 0x8000, "smallest large header");
            kani::cover!(size >= 0x40_0000, "size with the top bit of 23 set");
            kani::cover!(size & 0x8000 == 0 && size > 0xFFFF, "large size with bit 15 clear");
        }
    }
    assert!(ich::inner_same(dh::client_dec_inner(&cd2), eh::server_enc_inner(&se)), "C10: stream out of step after the two-step decode");

    // facade objects delegate
    let mut sc = ServerCrypto { decrypt: dh::any_server_dec(), encrypt: eh::mk_server_enc(ks.clone(), kani::any()) };
    let hdr = sc.encrypt_server_header(size, opcode);
    assert!(hdr.len() == n, "C10: facade header length differs");
    let mut i = 0;
    while i < 5 {
        if i < n {
            assert!(hdr[i] == b[i], "C10: facade header bytes differ");
        }
        i += 1;
    }
    let mut cc = ClientCrypto { decrypt: cd0.clone(), encrypt: eh::any_client_enc() };
    let mut rd: &[u8] = &b[..n];
    match cc.read_and_decrypt_server_header(&mut rd) {
        Ok(h) => assert!(h.size == size && h.opcode == opcode, "C10: facade read-based decode differs"),
        Err(e) => {
            core::mem::forget(e);
            assert!(false, "C10: facade read-based decode failed");
        }
    }
    let mut cc = ClientCrypto { decrypt: cd0.clone(), encrypt: eh::any_client_enc() };
    match cc.attempt_decrypt_server_header([b[0], b[1], b[2], b[3]]) {
        WrathServerAttempt::Header(h) => assert!(n == 4 && h.size == size && h.opcode == opcode, "C10: facade attempt differs"),
        WrathServerAttempt::AdditionalByteRequired => {
            let h = cc.decrypt_large_server_header(b[4]);
            assert!(n == 5 && h.size == size && h.opcode == opcode, "C10: facade two-step decode differs");
        }
    }
}

/// C10: the Write wrapper emits the same bytes as encrypt_server_header.
#[kani::proof]
#[kani::unwind(258)]
#[kani::stub(crate::wrath_header::inner_crypto::InnerCrypto::apply, ich::pad_apply_inner)]
fn c10_write() {
    let ks = ich::any_inner();
    let size: u32 = kani::any();
    let opcode: u16 = kani::any();
    kani::assume(size <= 0x7F_FFFF);
    let mut se = eh::mk_server_enc(ks.clone(), kani::any());
    let (n, b) = emit(&mut se, size, opcode);
    let facade: bool = kani::any();
    let mut sink = [0u8; 8];
    let mut w: &mut [u8] = &mut sink;
    let mut se2 = eh::mk_server_enc(ks.clone(), kani::any());
    let r = if facade {
        let mut sc = ServerCrypto { decrypt: dh::any_server_dec(), encrypt: se2 };
        let r = sc.write_encrypted_server_header(&mut w, size, opcode);
        se2 = sc.encrypt;
        r
    } else {
        se2.write_encrypted_server_header(&mut w, size, opcode)
    };
    match r {
        Ok(()) => {}
        Err(e) => {
            core::mem::forget(e);
            assert!(false, "C10: writing into a large enough sink failed");
        }
    }
    let left = w.len();
    assert!(8 - left == n, "C10: write wrapper wrote another number of bytes");
    let mut i = 0;
    while i < 5 {
        if i < n {
            assert!(sink[i] == b[i], "C10: write wrapper wrote other bytes");
        }
        i += 1;
    }
    assert!(ich::inner_same(eh::server_enc_inner(&se2), eh::server_enc_inner(&se)), "C10: write wrapper leaves another cipher state");
    kani::cover!(n == 5 && facade, "large header through the facade");
    kani::cover!(n == 4 && !facade, "small header through the half");
}

// =================================================================================================
// C11 (Wrath): typed helpers, readers, writers
// =================================================================================================

fn cenc_same(a: &ClientEncrypterHalf, b: &ClientEncrypterHalf) -> bool {
    ich::inner_same(eh::client_enc_inner(a), eh::client_enc_inner(b))
}
fn sdec_same(a: &ServerDecrypterHalf, b: &ServerDecrypterHalf) -> bool {
    ich::inner_same(dh::server_dec_inner(a), dh::server_dec_inner(b))
}
fn cdec_same(a: &ClientDecrypterHalf, b: &ClientDecrypterHalf) -> bool {
    ich::inner_same(dh::client_dec_inner(a), dh::client_dec_inner(b)) && dh::client_dec_stash(a) == dh::client_dec_stash(b)
}
fn senc_cipher_same(a: &ServerEncrypterHalf, b: &ServerEncrypterHalf) -> bool {
    ich::inner_same(eh::server_enc_inner(a), eh::server_enc_inner(b))
}

/// C11: client-header helpers on the client == raw operation on the wire layout.
#[kani::proof]
#[kani::unwind(258)]
#[kani::stub(crate::wrath_header::inner_crypto::InnerCrypto::apply, ich::pad_apply_inner)]
fn c11_wrath_client_header_enc() {
    let size: u16 = kani::any();
    let op32: u32 = kani::any();
    let sz = size.to_be_bytes();
    let o = op32.to_le_bytes();
    let ce0 = eh::any_client_enc();
    let mut raw_e = ce0.clone();
    let mut raw = [sz[0], sz[1], o[0], o[1], o[2], o[3]];
    raw_e.encrypt(&mut raw);
    let mut e1 = ce0.clone();
    assert!(e1.encrypt_client_header(size, op32) == raw && cenc_same(&e1, &raw_e), "C11: wrath encrypt_client_header differs from raw");
    let cd0 = dh::any_client_dec();
    let mut cc = ClientCrypto { decrypt: cd0.clone(), encrypt: ce0.clone() };
    assert!(cc.encrypt_client_header(size, op32) == raw && cenc_same(&cc.encrypt, &raw_e) && cdec_same(&cc.decrypt, &cd0), "C11: wrath facade encrypt_client_header differs");
    let mut cc = ClientCrypto { decrypt: cd0.clone(), encrypt: ce0.clone() };
    assert!(cc.encrypter().encrypt_client_header(size, op32) == raw && cenc_same(&cc.encrypt, &raw_e), "C11: wrath encrypter() accessor differs");
    let mut cc = ClientCrypto { decrypt: cd0.clone(), encrypt: ce0.clone() };
    let mut x = [sz[0], sz[1], o[0], o[1], o[2], o[3]];
    cc.encrypt(&mut x);
    assert!(x == raw && cenc_same(&cc.encrypt, &raw_e) && cdec_same(&cc.decrypt, &cd0), "C11: wrath facade encrypt differs");

    kani::cover!(size == 0x0102 && op32 == 0x0A0B0C0D, "asymmetric header");
}

/// C11: client-header helpers on the server == raw operation on the wire layout.
#[kani::proof]
#[kani::unwind(258)]
#[kani::stub(crate::wrath_header::inner_crypto::InnerCrypto::apply, ich::pad_apply_inner)]
fn c11_wrath_client_header_dec() {
    let se0 = eh::any_server_enc();
    // server side decrypt of a client header
    let wire: [u8; 6] = kani::any();
    let sd0 = dh::any_server_dec();
    let mut raw_d = sd0.clone();
    let mut p = wire;
    raw_d.decrypt(&mut p);
    let exp = ClientHeader { size: u16::from_be_bytes([p[0], p[1]]), opcode: u32::from_le_bytes([p[2], p[3], p[4], p[5]]) };
    let mut d1 = sd0.clone();
    assert!(d1.decrypt_client_header(wire) == exp && sdec_same(&d1, &raw_d), "C11: wrath decrypt_client_header differs from raw");
    let mut sc = ServerCrypto { decrypt: sd0.clone(), encrypt: se0.clone() };
    assert!(sc.decrypt_client_header(wire) == exp && sdec_same(&sc.decrypt, &raw_d) && senc_cipher_same(&sc.encrypt, &se0), "C11: wrath facade decrypt_client_header differs");
    let mut sc = ServerCrypto { decrypt: sd0.clone(), encrypt: se0.clone() };
    assert!(sc.decrypter().decrypt_client_header(wire) == exp && sdec_same(&sc.decrypt, &raw_d), "C11: wrath decrypter() accessor differs");
    let mut sc = ServerCrypto { decrypt: sd0.clone(), encrypt: se0.clone() };
    let mut q = wire;
    sc.decrypt(&mut q);
    assert!(q == p && sdec_same(&sc.decrypt, &raw_d) && senc_cipher_same(&sc.encrypt, &se0), "C11: wrath facade decrypt differs");

    kani::cover!(true, "client header decoded");
}

/// C11: server-header helpers on the server == raw operation on the wire layout (both lengths).
#[kani::proof]
#[kani::unwind(258)]
#[kani::stub(crate::wrath_header::inner_crypto::InnerCrypto::apply, ich::pad_apply_inner)]
fn c11_wrath_server_header_enc() {
    let se0 = eh::any_server_enc();
    let sd0 = dh::any_server_dec();
    // server header helpers == raw on the wire layout (small and large)
    let ssize: u32 = kani::any();
    let op16: u16 = kani::any();
    kani::assume(ssize <= 0x7F_FFFF);
    let sb = ssize.to_be_bytes();
    let ob = op16.to_le_bytes();
    let mut raw_se = se0.clone();
    let mut se1 = se0.clone();
    let (n, b) = emit(&mut se1, ssize, op16);
    if ssize > 0x7FFF {
        let mut w = [sb[1] | 0x80, sb[2], sb[3], ob[0], ob[1]];
        raw_se.encrypt(&mut w);
        assert!(n == 5 && b == w, "C11: large server header differs from raw encrypt of the wire layout");
    } else {
        let mut w = [sb[2], sb[3], ob[0], ob[1]];
        raw_se.encrypt(&mut w);
        assert!(n == 4 && b[0] == w[0] && b[1] == w[1] && b[2] == w[2] && b[3] == w[3], "C11: small server header differs from raw encrypt of the wire layout");
    }
    assert!(senc_cipher_same(&se1, &raw_se), "C11: encrypt_server_header leaves another state than raw encrypt");
    let mut sc = ServerCrypto { decrypt: sd0.clone(), encrypt: se0.clone() };
    let mut y = [sb[2], sb[3], ob[0], ob[1]];
    let mut raw_se2 = se0.clone();
    let mut y2 = y;
    raw_se2.encrypt(&mut y2);
    sc.encrypt(&mut y);
    assert!(y == y2 && senc_cipher_same(&sc.encrypt, &raw_se2) && sdec_same(&sc.decrypt, &sd0), "C11: wrath server facade encrypt differs");
    let mut sc = ServerCrypto { decrypt: sd0.clone(), encrypt: se0.clone() };
    let mut y3 = [sb[2], sb[3], ob[0], ob[1]];
    sc.encrypter().encrypt(&mut y3);
    assert!(y3 == y2, "C11: wrath server encrypter() accessor differs");

    kani::cover!(n == 5, "large");
    kani::cover!(n == 4, "small");
}

/// C11: server-header calls on the client == raw decrypt + layout (both lengths).
#[kani::proof]
#[kani::unwind(258)]
#[kani::stub(crate::wrath_header::inner_crypto::InnerCrypto::apply, ich::pad_apply_inner)]
fn c11_wrath_server_header_dec() {
    let cd0 = dh::any_client_dec();
    let ce0 = eh::any_client_enc();
    // client side: attempt / large == raw decrypt + layout
    let w5: [u8; 5] = kani::any();
    let mut raw_cd = cd0.clone();
    let mut p5 = w5;
    raw_cd.decrypt(&mut p5[..4]);
    let mut d2 = cd0.clone();
    match d2.attempt_decrypt_server_header([w5[0], w5[1], w5[2], w5[3]]) {
        WrathServerAttempt::Header(h) => {
            assert!(p5[0] & 0x80 == 0, "C11: attempt returned a header although the marker is set");
            assert!(h.size == u16::from_be_bytes([p5[0], p5[1]]) as u32 && h.opcode == u16::from_le_bytes([p5[2], p5[3]]), "C11: attempt differs from raw decrypt + small layout");
            assert!(ich::inner_same(dh::client_dec_inner(&d2), dh::client_dec_inner(&raw_cd)), "C11: attempt leaves another cipher state than raw decrypt");
            kani::cover!(true, "small");
        }
        WrathServerAttempt::AdditionalByteRequired => {
            assert!(p5[0] & 0x80 != 0, "C11: attempt asked for a byte although the marker is clear");
            raw_cd.decrypt(&mut p5[4..5]);
            let h = d2.decrypt_large_server_header(w5[4]);
            assert!(h.size == u32::from_be_bytes([0, p5[0] & 0x7F, p5[1], p5[2]]) && h.opcode == u16::from_le_bytes([p5[3], p5[4]]), "C11: two-step decode differs from raw decrypt + large layout");
            assert!(ich::inner_same(dh::client_dec_inner(&d2), dh::client_dec_inner(&raw_cd)), "C11: two-step decode leaves another cipher state than raw decrypt");
            kani::cover!(true, "large");
        }
    }
    assert!(ServerHeader::from_small_array([p5[0], p5[1], p5[2], p5[3]]).size == u16::from_be_bytes([p5[0], p5[1]]) as u32, "C11: small layout constructor");
    // client facade decrypt + decrypter() accessor
    let mut cc = ClientCrypto { decrypt: cd0.clone(), encrypt: ce0.clone() };
    let mut z = [w5[0], w5[1], w5[2], w5[3]];
    cc.decrypt(&mut z);
    let mut raw_cd2 = cd0.clone();
    let mut z2 = [w5[0], w5[1], w5[2], w5[3]];
    raw_cd2.decrypt(&mut z2);
    assert!(z == z2 && cdec_same(&cc.decrypt, &raw_cd2) && cenc_same(&cc.encrypt, &ce0), "C11: wrath client facade decrypt differs");
    let mut cc = ClientCrypto { decrypt: cd0.clone(), encrypt: ce0.clone() };
    let mut z3 = [w5[0], w5[1], w5[2], w5[3]];
    cc.decrypter().decrypt(&mut z3);
    assert!(z3 == z2, "C11: wrath client decrypter() accessor differs");
}

/// C11: server reads a 6-byte client header through a faulty reader.
fn c11_wrath_read_client_impl(facade: bool) {
    let sd0 = dh::any_server_dec_at(253);
    let se0 = eh::any_server_enc_at(252);
    let mut rd = AnyReader::new();
    let mut raw_d = sd0.clone();
    let mut p = [rd.stream[0], rd.stream[1], rd.stream[2], rd.stream[3], rd.stream[4], rd.stream[5]];
    raw_d.decrypt(&mut p);
    let mut sc = ServerCrypto { decrypt: sd0.clone(), encrypt: se0.clone() };
    let r = if facade { sc.read_and_decrypt_client_header(&mut rd) } else { sc.decrypt.read_and_decrypt_client_header(&mut rd) };
    match r {
        Ok(h) => {
            assert!(!rd.failed && rd.pos == 6, "C11: header returned although the reader failed or bytes are missing");
            assert!(h.size == u16::from_be_bytes([p[0], p[1]]) && h.opcode == u32::from_le_bytes([p[2], p[3], p[4], p[5]]), "C11: wrath read wrapper differs from raw decrypt of the delivered bytes");
            assert!(sdec_same(&sc.decrypt, &raw_d), "C11: wrath read wrapper leaves another state than raw decrypt");
            kani::cover!(rd.fragments >= 3 && rd.interrupted >= 1, "three fragments and an interruption");
        }
        Err(e) => {
            core::mem::forget(e);
            assert!(rd.failed, "C11: wrath read wrapper failed although the reader did not");
            assert!(sdec_same(&sc.decrypt, &sd0), "C11: failed read changed the wrath server decrypter");
            kani::cover!(rd.pos == 5, "failure after five of six bytes");
        }
    }
    assert!(senc_cipher_same(&sc.encrypt, &se0), "C11: reading changed the encrypter");
}
#[kani::proof]
#[kani::unwind(42)]
#[kani::stub(crate::wrath_header::inner_crypto::InnerCrypto::apply, ich::pad_apply_inner)]
fn c11_wrath_read_client() {
    c11_wrath_read_client_impl(false);
}
#[kani::proof]
#[kani::unwind(42)]
#[kani::stub(crate::wrath_header::inner_crypto::InnerCrypto::apply, ich::pad_apply_inner)]
fn c11_wrath_read_client_facade() {
    c11_wrath_read_client_impl(true);
}

/// C11: client reads a 4- or 5-byte server header. `mode` 1: the reader fragments and interrupts but never
/// fails; `mode` 2: the reader fails (error of any kind, or end of file) after exactly `fail_at` bytes.
fn c11_wrath_read_server_impl(facade: bool, simple_lo: usize, simple_hi: usize) -> (bool, usize, bool) {
    let cd0 = dh::any_client_dec_at(253);
    let ce0 = eh::any_client_enc_at(252);
    let mut rd = AnyReader::new();
    // arbitrary behaviour in one of the two read_exact phases, deliver-or-fail in the other
    rd.simple_lo = simple_lo;
    rd.simple_hi = simple_hi;
    rd.max_calls = 7;
    let w = [rd.stream[0], rd.stream[1], rd.stream[2], rd.stream[3], rd.stream[4]];
    // reference: the two-step calls on the delivered bytes
    let mut ref4 = cd0.clone();
    let att = ref4.attempt_decrypt_server_header([w[0], w[1], w[2], w[3]]);
    let large = matches!(att, WrathServerAttempt::AdditionalByteRequired);
    let mut cc = ClientCrypto { decrypt: cd0.clone(), encrypt: ce0.clone() };
    let r = if facade { cc.read_and_decrypt_server_header(&mut rd) } else { cc.decrypt.read_and_decrypt_server_header(&mut rd) };
    let ok = match r {
        Ok(h) => {
            assert!(!rd.failed, "C11: header returned although the reader failed");
            match att {
                WrathServerAttempt::Header(e) => {
                    assert!(rd.pos == 4 && h == e, "C11: wrath read wrapper differs from the attempt call on a small header");
                    assert!(cdec_same(&cc.decrypt, &ref4), "C11: wrath read wrapper leaves another state than the attempt call");
                }
                WrathServerAttempt::AdditionalByteRequired => {
                    let e = ref4.decrypt_large_server_header(w[4]);
                    assert!(rd.pos == 5 && h == e, "C11: wrath read wrapper differs from the two-step calls on a large header");
                    assert!(cdec_same(&cc.decrypt, &ref4), "C11: wrath read wrapper leaves another state than the two-step calls");
                }
            }
            true
        }
        Err(e) => {
            core::mem::forget(e);
            assert!(rd.failed, "C11: wrath read wrapper failed although the reader did not");
            if rd.pos < 4 {
                assert!(cdec_same(&cc.decrypt, &cd0), "C11: failed read of the first four bytes changed the wrath client decrypter");
            } else {
                // failed at the fifth byte: exactly as after the 4-byte attempt, and completable later
                assert!(rd.pos == 4, "C11: reader position inconsistent");
                assert!(large, "C11: fifth byte requested for a small header");
                assert!(cdec_same(&cc.decrypt, &ref4), "C11: failure at the fifth byte does not leave the state of the 4-byte attempt");
                let b: u8 = kani::any();
                let later = cc.decrypt.decrypt_large_server_header(b);
                let expect = ref4.decrypt_large_server_header(b);
                assert!(later == expect && cdec_same(&cc.decrypt, &ref4), "C11: supplying the fifth byte later does not complete the header");
            }
            false
        }
    };
    assert!(cenc_same(&cc.encrypt, &ce0), "C11: reading changed the encrypter");
    (ok, rd.pos, large)
}
#[kani::proof]
#[kani::unwind(42)]
#[kani::stub(crate::wrath_header::inner_crypto::InnerCrypto::apply, ich::pad_apply_inner)]
fn c11_wrath_read_server() {
    // first four bytes: arbitrary fragmentation / interruption / failure; fifth byte: delivered or failed
    let (ok, pos, large) = c11_wrath_read_server_impl(false, 4, 8);
    kani::cover!(ok && pos == 5 && large, "large header complete");
    kani::cover!(!ok && pos == 3, "failure after three bytes");
    kani::cover!(!ok && pos == 4 && large, "failure at the fifth byte");
}
#[kani::proof]
#[kani::unwind(42)]
#[kani::stub(crate::wrath_header::inner_crypto::InnerCrypto::apply, ich::pad_apply_inner)]
fn c11_wrath_read_server_fifth() {
    // first four bytes: delivered at once or failed; fifth byte: arbitrary interruption / failure
    let (ok, pos, large) = c11_wrath_read_server_impl(false, 0, 4);
    kani::cover!(ok && pos == 5 && large, "large header complete after interruptions");
    kani::cover!(!ok && pos == 4 && large, "failure at the fifth byte");
    kani::cover!(ok && pos == 4 && !large, "small header");
}
#[kani::proof]
#[kani::unwind(42)]
#[kani::stub(crate::wrath_header::inner_crypto::InnerCrypto::apply, ich::pad_apply_inner)]
fn c11_wrath_read_server_facade() {
    let (ok, pos, large) = c11_wrath_read_server_impl(true, 4, 8);
    kani::cover!(!ok && pos == 4 && large, "failure at the fifth byte");
}
/// C11 (quick tier): the client reads a server header from a source that ends after f bytes (f = 0..=5,
/// symbolic): complete headers decode like the two-step calls; a source that ends early yields an error and
/// leaves the decrypter as it was (f < 4) or exactly as after the 4-byte attempt (f = 4 on a large header),
/// and supplying the fifth byte later completes the header. Fragmenting / interrupting readers for this
/// entry point are the (expensive) thorough-tier harnesses c11_wrath_read_server*.
#[kani::proof]
#[kani::unwind(42)]
#[kani::stub(crate::wrath_header::inner_crypto::InnerCrypto::apply, ich::pad_apply_inner)]
fn c11_wrath_read_server_eof() {
    let cd0 = dh::any_client_dec_at(253);
    let ce0 = eh::any_client_enc_at(252);
    let w: [u8; 5] = kani::any();
    let f: usize = kani::any();
    kani::assume(f <= 5);
    let facade: bool = kani::any();
    let mut ref4 = cd0.clone();
    let att = ref4.attempt_decrypt_server_header([w[0], w[1], w[2], w[3]]);
    let large = matches!(att, WrathServerAttempt::AdditionalByteRequired);
    let mut cc = ClientCrypto { decrypt: cd0.clone(), encrypt: ce0.clone() };
    let mut src: &[u8] = &w[..f];
    let r = if facade { cc.read_and_decrypt_server_header(&mut src) } else { cc.decrypt.read_and_decrypt_server_header(&mut src) };
    match r {
        Ok(h) => {
            match att {
                WrathServerAttempt::Header(e) => {
                    assert!(f >= 4 && h == e && src.len() == f - 4, "C11: wrath read wrapper differs from the attempt call on a small header");
                    assert!(cdec_same(&cc.decrypt, &ref4), "C11: wrath read wrapper leaves another state than the attempt call");
                    kani::cover!(f == 5, "small header, one byte left in the source");
                }
                WrathServerAttempt::AdditionalByteRequired => {
                    let e = ref4.decrypt_large_server_header(w[4]);
                    assert!(f == 5 && h == e && src.is_empty(), "C11: wrath read wrapper differs from the two-step calls on a large header");
                    assert!(cdec_same(&cc.decrypt, &ref4), "C11: wrath read wrapper leaves another state than the two-step calls");
                    kani::cover!(true, "large header complete");
                }
            }
        }
        Err(e) => {
            core::mem::forget(e);
            if f < 4 {
                assert!(cdec_same(&cc.decrypt, &cd0), "C11: failed read of the first four bytes changed the wrath client decrypter");
                kani::cover!(f == 3, "source ends after three bytes");
            } else {
                assert!(f == 4 && large, "C11: wrath read wrapper failed on a complete header");
                assert!(cdec_same(&cc.decrypt, &ref4), "C11: failure at the fifth byte does not leave the state of the 4-byte attempt");
                let b: u8 = kani::any();
                let later = cc.decrypt.decrypt_large_server_header(b);
                let expect = ref4.decrypt_large_server_header(b);
                assert!(later == expect && cdec_same(&cc.decrypt, &ref4), "C11: supplying the fifth byte later does not complete the header");
                kani::cover!(true, "source ends at the fifth byte of a large header");
            }
        }
    }
    assert!(cenc_same(&cc.encrypt, &ce0), "C11: reading changed the encrypter");
}

/// C11: Wrath write wrappers with a faulty writer.
fn c11_wrath_write_client_impl(facade: bool) {
    let ce0 = eh::any_client_enc_at(252);
    let cd0 = dh::any_client_dec_at(253);
    let size: u16 = kani::any();
    let op32: u32 = kani::any();
    let mut ref_e = ce0.clone();
    let exp = ref_e.encrypt_client_header(size, op32);
    let mut wr = AnyWriter::new();
    let mut cc = ClientCrypto { decrypt: cd0.clone(), encrypt: ce0.clone() };
    let r = if facade { cc.write_encrypted_client_header(&mut wr, size, op32) } else { cc.encrypt.write_encrypted_client_header(&mut wr, size, op32) };
    match r {
        Ok(()) => {
            assert!(!wr.failed, "C11: a failing writer's error was swallowed");
            assert!(wr.pos == 6, "C11: success reported without writing the whole header");
            kani::cover!(wr.calls >= 3, "three or more write calls");
        }
        Err(e) => {
            core::mem::forget(e);
            assert!(wr.failed, "C11: write wrapper failed although the writer did not");
            kani::cover!(wr.pos == 5, "writer failed before the last byte");
        }
    }
    let mut i = 0;
    while i < 6 {
        if i < wr.pos {
            assert!(wr.sink[i] == exp[i], "C11: bytes written differ from the encrypted header");
        }
        i += 1;
    }
    assert!(wr.pos <= 6 && cenc_same(&cc.encrypt, &ref_e) && cdec_same(&cc.decrypt, &cd0), "C11: wrath write wrapper state differs");
}
#[kani::proof]
#[kani::unwind(42)]
#[kani::stub(crate::wrath_header::inner_crypto::InnerCrypto::apply, ich::pad_apply_inner)]
fn c11_wrath_write_client() {
    c11_wrath_write_client_impl(false);
}
#[kani::proof]
#[kani::unwind(42)]
#[kani::stub(crate::wrath_header::inner_crypto::InnerCrypto::apply, ich::pad_apply_inner)]
fn c11_wrath_write_client_facade() {
    c11_wrath_write_client_impl(true);
}

fn c11_wrath_write_server_impl(facade: bool) {
    let se0 = eh::any_server_enc_at(252);
    let sd0 = dh::any_server_dec_at(253);
    let size: u32 = kani::any();
    let op16: u16 = kani::any();
    kani::assume(size <= 0x7F_FFFF);
    let mut ref_e = se0.clone();
    let (n, exp) = emit(&mut ref_e, size, op16);
    let mut wr = AnyWriter::new();
    let mut sc = ServerCrypto { decrypt: sd0.clone(), encrypt: se0.clone() };
    let r = if facade { sc.write_encrypted_server_header(&mut wr, size, op16) } else { sc.encrypt.write_encrypted_server_header(&mut wr, size, op16) };
    match r {
        Ok(()) => {
            assert!(!wr.failed, "C11: a failing writer's error was swallowed");
            assert!(wr.pos == n, "C11: success reported without writing the whole header");
            kani::cover!(wr.calls >= 3 && n == 5, "large header in three or more write calls");
        }
        Err(e) => {
            core::mem::forget(e);
            assert!(wr.failed, "C11: write wrapper failed although the writer did not");
            kani::cover!(wr.pos == 4 && n == 5, "writer failed before the fifth byte");
        }
    }
    let mut i = 0;
    while i < 5 {
        if i < wr.pos {
            assert!(wr.sink[i] == exp[i], "C11: bytes written differ from the encrypted header");
        }
        i += 1;
    }
    assert!(wr.pos <= n && senc_cipher_same(&sc.encrypt, &ref_e) && sdec_same(&sc.decrypt, &sd0), "C11: wrath write wrapper state differs");
}
#[kani::proof]
#[kani::unwind(42)]
#[kani::stub(crate::wrath_header::inner_crypto::InnerCrypto::apply, ich::pad_apply_inner)]
fn c11_wrath_write_server() {
    c11_wrath_write_server_impl(false);
}
#[kani::proof]
#[kani::unwind(42)]
#[kani::stub(crate::wrath_header::inner_crypto::InnerCrypto::apply, ich::pad_apply_inner)]
fn c11_wrath_write_server_facade() {
    c11_wrath_write_server_impl(true);
}

// =================================================================================================
// C12 (Wrath): directions independent, split/clone lose nothing
// =================================================================================================
#[kani::proof]
#[kani::unwind(258)]
#[kani::stub(crate::wrath_header::inner_crypto::InnerCrypto::apply, ich::pad_apply_inner)]
fn c12_wrath_frame() {
    let data: [u8; 6] = kani::any();
    let n: usize = kani::any();
    kani::assume(n <= 6);
    // client object: two independent keystreams
    let ce0 = eh::any_client_enc();
    let cd0 = dh::any_client_dec();
    let mut cc = ClientCrypto { decrypt: cd0.clone(), encrypt: ce0.clone() };
    let mut a = data;
    cc.encrypt(&mut a[..n]);
    let mut lone = ce0.clone();
    let mut b = data;
    lone.encrypt(&mut b[..n]);
    assert!(a == b && cenc_same(&cc.encrypt, &lone) && cdec_same(&cc.decrypt, &cd0), "C12: wrath client encrypt is not independent of the decrypt half");
    let mut cc = ClientCrypto { decrypt: cd0.clone(), encrypt: ce0.clone() };
    let mut a = data;
    cc.decrypt(&mut a[..n]);
    let mut lone = cd0.clone();
    let mut b = data;
    lone.decrypt(&mut b[..n]);
    assert!(a == b && cdec_same(&cc.decrypt, &lone) && cenc_same(&cc.encrypt, &ce0), "C12: wrath client decrypt is not independent of the encrypt half");
    let c2 = cc.clone();
    assert!(c2 == cc, "C12: wrath client clone differs");
    let (e, d) = c2.split();
    assert!(cenc_same(&e, &cc.encrypt) && cdec_same(&d, &cc.decrypt), "C12: wrath client split changed a half");

    let se0 = eh::any_server_enc();
    let sd0 = dh::any_server_dec();
    let mut sc = ServerCrypto { decrypt: sd0.clone(), encrypt: se0.clone() };
    let mut a = data;
    sc.encrypt(&mut a[..n]);
    let mut lone = se0.clone();
    let mut b = data;
    lone.encrypt(&mut b[..n]);
    assert!(a == b && senc_cipher_same(&sc.encrypt, &lone) && sdec_same(&sc.decrypt, &sd0), "C12: wrath server encrypt is not independent of the decrypt half");
    let mut sc = ServerCrypto { decrypt: sd0.clone(), encrypt: se0.clone() };
    let mut a = data;
    sc.decrypt(&mut a[..n]);
    let mut lone = sd0.clone();
    let mut b = data;
    lone.decrypt(&mut b[..n]);
    assert!(a == b && sdec_same(&sc.decrypt, &lone) && senc_cipher_same(&sc.encrypt, &se0), "C12: wrath server decrypt is not independent of the encrypt half");
    let s2 = sc.clone();
    assert!(s2 == sc, "C12: wrath server clone differs");
    let (e, d) = s2.split();
    assert!(senc_cipher_same(&e, &sc.encrypt) && sdec_same(&d, &sc.decrypt), "C12: wrath server split changed a half");
    kani::cover!(n == 6, "six bytes");
}

// =================================================================================================
// C06: world-login proof
// =================================================================================================
fn world_proof_spec(name: &crate::normalized_string::NormalizedString, sk: &[u8; 40], client_seed: u32, server_seed: u32) -> [u8; 20] {
    let (nb, nl) = crate::normalized_string::verif_h::name_bytes(name);
    verif_oracle::sha1_of(&[&nb[..nl], &0u32.to_le_bytes(), &client_seed.to_le_bytes(), &server_seed.to_le_bytes(), sk])
}

fn p20_eq(a: &[u8; 20], b: &[u8; 20]) -> bool {
    let mut eq = true;
    let mut i = 0;
    while i < 20 {
        if a[i] != b[i] {
            eq = false;
        }
        i += 1;
    }
    eq
}

/// C06: the client's proof is SHA-1(name | 0u32 | own seed LE | server seed LE | session key); the seed
/// accessor returns the 4-byte draw and that value is the one used.
#[kani::proof]
#[kani::unwind(80)]
#[kani::stub(core::str::from_utf8, verif_oracle::from_utf8_model)]
#[kani::stub(crate::wrath_header::inner_crypto::InnerCrypto::new, crate::wrath_header::inner_crypto::verif_h::stub_inner_new)]
fn c06_wrath_client_msg() {
    let name = crate::normalized_string::verif_h::any_name(16);
    let sk: [u8; 40] = kani::any();
    let server_seed: u32 = kani::any();
    let seed = ProofSeed::new();
    assert!(verif_oracle::n_draws() == 1 && verif_oracle::draw_len(0) == 4, "C06: ProofSeed::new does not draw exactly four random bytes");
    let d = verif_oracle::draw_bytes(0);
    let own = seed.seed();
    assert!(own == u32::from_le_bytes([d[0], d[1], d[2], d[3]]), "C06: seed accessor is not the value drawn");
    let expected = world_proof_spec(&name, &sk, own, server_seed);
    let (proof, _c) = seed.into_client_header_crypto(&name, sk, server_seed);
    assert!(p20_eq(&proof, &expected), "C06: client proof is not SHA-1(name | 0 | client seed | server seed | session key)");
    kani::cover!(own == 0 && server_seed == 0xFFFF_FFFF, "boundary seeds");
    kani::cover!(name.as_ref().len() == 16, "16-byte name");
    kani::cover!(name.as_ref().len() == 1, "1-byte name");
}

/// C06: the server hands out header crypto exactly when the presented proof equals the value for its own seed.
#[kani::proof]
#[kani::unwind(80)]
#[kani::stub(core::str::from_utf8, verif_oracle::from_utf8_model)]
#[kani::stub(crate::wrath_header::inner_crypto::InnerCrypto::new, crate::wrath_header::inner_crypto::verif_h::stub_inner_new)]
fn c06_wrath_server_decision() {
    let name = crate::normalized_string::verif_h::any_name(16);
    let sk: [u8; 40] = kani::any();
    let own: u32 = kani::any();
    let client_seed: u32 = kani::any();
    let presented: [u8; 20] = kani::any();
    let expected = world_proof_spec(&name, &sk, client_seed, own);
    let seed = ProofSeed { seed: own };
    assert!(seed.seed() == own, "C06: seed accessor differs from the stored seed");
    match seed.into_server_header_crypto(&name, sk, presented, client_seed) {
        Ok(_c) => {
            assert!(p20_eq(&presented, &expected), "C06: header crypto handed out for a proof that is not the expected one");
            kani::cover!(true, "accepted");
        }
        Err(e) => {
            assert!(!p20_eq(&presented, &expected), "C06: the correct proof was refused");
            assert!(p20_eq(&e.client_proof, &presented), "C06: error does not carry the presented proof");
            assert!(p20_eq(&e.server_proof, &expected), "C06: error does not carry the server's proof");
            let mut diff = 0u32;
            let mut i = 0;
            while i < 20 {
                diff += (presented[i] ^ expected[i]).count_ones();
                i += 1;
            }
            kani::cover!(diff == 1 && presented[19] != expected[19], "single-bit change in the last byte refused");
            kani::cover!(diff == 2, "two-bit change refused");
        }
    }
    kani::cover!(own == client_seed, "equal seeds");
}

/// C14: header bytes in any order and amount never panic the Wrath client (arbitrary state, three
/// arbitrary operations, including the 'one more byte' call without a preceding attempt).
#[kani::proof]
#[kani::unwind(258)]
#[kani::stub(crate::wrath_header::inner_crypto::InnerCrypto::apply, ich::pad_apply_inner)]
fn c14_wrath_any_order() {
    let mut cc = ClientCrypto { decrypt: dh::any_client_dec_at(kani::any()), encrypt: eh::any_client_enc_at(0) };
    let mut k = 0;
    let mut larges = 0;
    while k < 3 {
        let op: u8 = kani::any();
        if op == 0 {
            match cc.attempt_decrypt_server_header(kani::any()) {
                WrathServerAttempt::Header(h) => assert!(h.size <= 0xFFFF, "C14: small header with a size above 16 bits"),
                WrathServerAttempt::AdditionalByteRequired => {}
            }
        } else if op == 1 {
            let h = cc.decrypt_large_server_header(kani::any());
            assert!(h.size <= 0x7F_FFFF, "C14: large header with a size above 23 bits");
            larges += 1;
        } else {
            let mut b: [u8; 4] = kani::any();
            cc.decrypt(&mut b);
        }
        k += 1;
    }
    kani::cover!(larges == 3, "three 'one more byte' calls in a row without an attempt");
}
