// Harnesses injected as a child module of `key` (sees private items).
use super::*;
// explicit imports: the harness must not depend on which names the parent module happens to import
#[allow(unused_imports)]
use crate::error::InvalidPublicKeyError;
#[allow(unused_imports)]
use crate::LARGE_SAFE_PRIME_LITTLE_ENDIAN;

fn is_zero(k: &[u8; 32]) -> bool {
    let mut z = true;
    let mut i = 0;
    while i < 32 {
        if k[i] != 0 {
            z = false;
        }
        i += 1;
    }
    z
}

fn is_n(k: &[u8; 32]) -> bool {
    let mut z = true;
    let mut i = 0;
    while i < 32 {
        if k[i] != LARGE_SAFE_PRIME_LITTLE_ENDIAN[i] {
            z = false;
        }
        i += 1;
    }
    z
}

/// C04: exact accept set of the public constructor over all 2^256 arrays.
#[kani::proof]
#[kani::unwind(34)]
fn c04_exact() {
    let k: [u8; 32] = kani::any();
    let zero = is_zero(&k);
    let n = is_n(&k);
    match PublicKey::from_le_bytes(k) {
        Ok(p) => {
            assert!(!zero && !n, "C04: zero or N accepted");
            let back = p.as_le_bytes();
            let mut i = 0;
            while i < 32 {
                assert!(back[i] == k[i], "C04: accessor changed the key");
                i += 1;
            }
            kani::cover!(true, "accepted");
        }
        Err(InvalidPublicKeyError::PublicKeyIsZero) => {
            assert!(zero, "C04: non-zero key reported as zero");
            kani::cover!(true, "zero refused");
        }
        Err(InvalidPublicKeyError::PublicKeyModLargeSafePrimeIsZero) => {
            assert!(n, "C04: key other than N reported as multiple of N");
            kani::cover!(true, "N refused");
        }
    }
}

fn bytes_eq32(a: &[u8; 32], b: &[u8; 32]) -> bool {
    let mut eq = true;
    let mut i = 0;
    while i < 32 {
        if a[i] != b[i] {
            eq = false;
        }
        i += 1;
    }
    eq
}

/// little-endian numeric comparison a <= b
fn le_leq(a: &[u8; 32], b: &[u8; 32]) -> bool {
    let mut r = true; // equal so far (from the least significant end): a <= b
    let mut i = 0;
    while i < 32 {
        if a[i] < b[i] {
            r = true;
        } else if a[i] > b[i] {
            r = false;
        }
        i += 1;
    }
    r
}

/// C04: the server's own B goes through the same acceptance rule and the same bytes.
#[kani::proof]
#[kani::unwind(66)]
fn c04_server_b() {
    let bytes: [u8; 32] = kani::any();
    let i = crate::bigint::Integer::from_bytes_le(&bytes);
    let r1 = PublicKey::try_from_bigint(i);
    let r2 = PublicKey::from_le_bytes(bytes);
    match (r1, r2) {
        (Ok(a), Ok(b)) => {
            assert!(bytes_eq32(a.as_le_bytes(), b.as_le_bytes()), "C04: try_from_bigint produced other bytes");
            assert!(bytes_eq32(a.as_le_bytes(), &bytes), "C04: try_from_bigint changed the value");
            kani::cover!(bytes[31] == 0 && bytes[30] == 0 && bytes[29] != 0, "accepted value with two high zero bytes");
            kani::cover!(bytes[0] == 0 && bytes[31] != 0, "accepted value with a low zero byte");
        }
        (Err(InvalidPublicKeyError::PublicKeyIsZero), Err(InvalidPublicKeyError::PublicKeyIsZero)) => {
            kani::cover!(true, "zero refused on both paths");
        }
        (
            Err(InvalidPublicKeyError::PublicKeyModLargeSafePrimeIsZero),
            Err(InvalidPublicKeyError::PublicKeyModLargeSafePrimeIsZero),
        ) => {
            kani::cover!(true, "N refused on both paths");
        }
        _ => {
            assert!(false, "C04: try_from_bigint and from_le_bytes disagree");
        }
    }
}

/// C04: the client's A is judged relative to the announced modulus, not the built-in one.
#[kani::proof]
#[kani::unwind(66)]
fn c04_client_a() {
    let nb: [u8; 32] = kani::any();
    let ab: [u8; 32] = kani::any();
    kani::assume(!is_zero(&nb));
    kani::assume(le_leq(&ab, &nb));
    let prime = crate::primes::LargeSafePrime::from_le_bytes(nb);
    let a = crate::bigint::Integer::from_bytes_le(&ab);
    match PublicKey::client_try_from_bigint(a, &prime) {
        Ok(p) => {
            assert!(!is_zero(&ab), "C04: client accepted A = 0");
            assert!(!bytes_eq32(&ab, &nb), "C04: client accepted A = announced modulus");
            assert!(bytes_eq32(p.as_le_bytes(), &ab), "C04: client key bytes differ from A");
            kani::cover!(is_n(&ab), "A equal to the built-in N accepted under a larger announced modulus");
            kani::cover!(ab[31] == 0 && ab[30] == 0, "A with high zero bytes");
        }
        Err(InvalidPublicKeyError::PublicKeyIsZero) => {
            assert!(is_zero(&ab), "C04: client reported non-zero A as zero");
            kani::cover!(true, "A = 0 refused");
        }
        Err(InvalidPublicKeyError::PublicKeyModLargeSafePrimeIsZero) => {
            assert!(bytes_eq32(&ab, &nb), "C04: client reported A != N' as multiple of N'");
            kani::cover!(true, "A = N' refused");
        }
    }
}

/// C01: fixed-width little-endian zero padding of every big-integer result: for every 32-byte value the
/// wrapper conversions give back exactly those bytes on all three paths (server S, client S, public keys).
#[kani::proof]
#[kani::unwind(66)]
fn c01_pad_roundtrip() {
    let b: [u8; 32] = kani::any();
    let i = crate::bigint::Integer::from_bytes_le(&b);
    assert!(bytes_eq32(&i.to_padded_32_byte_array_le(), &b), "C01: to_padded_32_byte_array_le is not zero padding on the high side");
    let s = SKey::from(crate::bigint::Integer::from_bytes_le(&b));
    assert!(bytes_eq32(s.as_le_bytes(), &b), "C01: SKey::from(Integer) is not zero padding on the high side");
    let v = Verifier::from_le_bytes(b);
    let back = v.as_bigint().to_padded_32_byte_array_le();
    assert!(bytes_eq32(&back, &b), "C01: as_bigint / padded round trip changes the value");
    kani::cover!(b[31] == 0 && b[30] == 0 && b[29] != 0, "two high zero bytes");
    kani::cover!(b[0] == 0 && b[1] == 0 && b[31] != 0, "two low zero bytes");
    kani::cover!(is_zero(&b), "zero");
}
