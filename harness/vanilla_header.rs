// Harnesses injected as child module `verif_h` of `vanilla_header`.
#![allow(dead_code, unused_imports)]
use super::*;

const KL: usize = 40;

fn any_state() -> ([u8; KL], u8, u8) {
    let key: [u8; KL] = kani::any();
    let index: u8 = kani::any();
    let prev: u8 = kani::any();
    kani::assume((index as usize) < KL);
    (key, index, prev)
}

fn key_eq(a: &[u8; KL], b: &[u8; KL]) -> bool {
    let mut eq = true;
    let mut i = 0;
    while i < KL {
        if a[i] != b[i] {
            eq = false;
        }
        i += 1;
    }
    eq
}

/// C07: one byte from every state follows the recurrence; decrypt is its inverse.
#[kani::proof]
#[kani::unwind(42)]
fn c07_step() {
    let (key, index, prev) = any_state();
    let x: u8 = kani::any();
    let mut e = EncrypterHalf { session_key: key, index, previous_value: prev };
    let mut buf = [x];
    e.encrypt(&mut buf);
    let c = (x ^ key[index as usize]).wrapping_add(prev);
    let ni = ((index as usize + 1) % KL) as u8;
    assert!(buf[0] == c, "C07: encrypt byte differs from recurrence");
    assert!(e.index == ni && e.previous_value == c, "C07: encrypt next state wrong");
    assert!(key_eq(&e.session_key, &key), "C07: encrypt changed the key");
    assert!((e.index as usize) < KL);

    let y: u8 = kani::any();
    let mut d = DecrypterHalf { session_key: key, index, previous_value: prev };
    let mut buf = [y];
    d.decrypt(&mut buf);
    let p = y.wrapping_sub(prev) ^ key[index as usize];
    assert!(buf[0] == p, "C07: decrypt byte differs from inverse recurrence");
    assert!(d.index == ni && d.previous_value == y, "C07: decrypt next state wrong");
    assert!(key_eq(&d.session_key, &key), "C07: decrypt changed the key");
    if y == c {
        assert!(buf[0] == x, "C07: decrypt does not invert encrypt");
    }
    kani::cover!(index == 39, "wrap of the key position");
    kani::cover!(y == c, "decrypting the encrypted byte");

    // zero-length calls change nothing
    let mut e0 = EncrypterHalf { session_key: key, index, previous_value: prev };
    let mut d0 = DecrypterHalf { session_key: key, index, previous_value: prev };
    let mut empty: [u8; 0] = [];
    e0.encrypt(&mut empty);
    d0.decrypt(&mut empty);
    assert!(e0.index == index && e0.previous_value == prev, "C07: empty encrypt changed the state");
    assert!(d0.index == index && d0.previous_value == prev, "C07: empty decrypt changed the state");
}

/// `which`: 0 = encrypt, 1 = decrypt, 2 = both
fn call_is_steps<const NMAX: usize>(index: u8, n: usize, which: u8) {
    let key: [u8; KL] = kani::any();
    let prev: u8 = kani::any();
    kani::assume((index as usize) < KL && n <= NMAX);
    let data: [u8; NMAX] = kani::any();
    let end_index = (index as usize + n) % KL;

    if which != 1 {
        let mut e = EncrypterHalf { session_key: key, index, previous_value: prev };
        let mut out = data;
        e.encrypt(&mut out[..n]);
        // stated locally per byte (no recomputed chain): c[i] - c[i-1] == x[i] ^ key[pos(i)]
        let mut i = 0;
        while i < NMAX {
            if i < n {
                let cprev = if i == 0 { prev } else { out[i - 1] };
                let ei = (index as usize + i) % KL;
                assert!(out[i].wrapping_sub(cprev) == data[i] ^ key[ei], "C07: byte of a multi-byte encrypt call differs from the recurrence");
            } else {
                assert!(out[i] == data[i], "C07: encrypt wrote beyond its slice");
            }
            i += 1;
        }
        let ep = if n == 0 { prev } else { out[n - 1] };
        assert!(e.index as usize == end_index && e.previous_value == ep, "C07: state after a multi-byte encrypt call wrong");
        assert!(key_eq(&e.session_key, &key), "C07: encrypt changed the key");
    }
    if which != 0 {
        let mut d = DecrypterHalf { session_key: key, index, previous_value: prev };
        let mut dout = data;
        d.decrypt(&mut dout[..n]);
        let mut i = 0;
        while i < NMAX {
            if i < n {
                let dprev = if i == 0 { prev } else { data[i - 1] };
                let ei = (index as usize + i) % KL;
                assert!(dout[i] == data[i].wrapping_sub(dprev) ^ key[ei], "C07: byte of a multi-byte decrypt call differs from the recurrence");
            } else {
                assert!(dout[i] == data[i], "C07: decrypt wrote beyond its slice");
            }
            i += 1;
        }
        let dp = if n == 0 { prev } else { data[n - 1] };
        assert!(d.index as usize == end_index && d.previous_value == dp, "C07: state after a multi-byte decrypt call wrong");
        assert!(key_eq(&d.session_key, &key), "C07: decrypt changed the key");
    }
}

/// C07: an n-byte encrypt call is n steps, every n <= 48 (longer than the key), from every state.
#[kani::proof]
#[kani::unwind(50)]
fn c07_call_enc() {
    let index: u8 = kani::any();
    let n: usize = kani::any();
    call_is_steps::<48>(index, n, 0);
    kani::cover!(n == 0, "empty call");
    kani::cover!(n == 48 && index == 39, "call longer than the key starting at the last key position");
}

/// C07: same for decrypt.
#[kani::proof]
#[kani::unwind(50)]
fn c07_call_dec() {
    let index: u8 = kani::any();
    let n: usize = kani::any();
    call_is_steps::<48>(index, n, 1);
    kani::cover!(n == 0, "empty call");
    kani::cover!(n == 48 && index == 39, "call longer than the key starting at the last key position");
}

/// C07: one call of 260 bytes starting at key position 39 (position + length >= 256, more than six
/// key laps) is 260 steps; key, chaining byte and data symbolic.
#[kani::proof]
#[kani::unwind(262)]
fn c07_call_long() {
    call_is_steps::<260>(39, 260, 2);
    kani::cover!(true, "long call");
}

/// thorough tier: the 260-byte call from key position 0
#[kani::proof]
#[kani::unwind(262)]
fn c07_call_long_p0() {
    call_is_steps::<260>(0, 260, 2);
    kani::cover!(true, "long call");
}

/// thorough tier: the 260-byte call from key position 23
#[kani::proof]
#[kani::unwind(262)]
fn c07_call_long_p23() {
    call_is_steps::<260>(23, 260, 2);
    kani::cover!(true, "long call");
}

/// a call of 100 bytes from key position 23: position and length concrete (cheap and robust whatever loop
/// structure the implementation uses), key, chaining byte and data symbolic
#[kani::proof]
#[kani::unwind(102)]
fn c07_call_mid() {
    call_is_steps::<100>(23, 100, 2);
    kani::cover!(true, "mid call");
}

/// C07: splitting a call anywhere (including empty pieces) changes nothing; paired halves round-trip
/// under different chunking on the two sides.
const SPL: usize = 8;
#[kani::proof]
#[kani::unwind(42)]
fn c07_split_call() {
    let (key, index, prev) = any_state();
    let n: usize = kani::any();
    let cut: usize = kani::any();
    let cut2: usize = kani::any();
    kani::assume(n <= SPL && cut <= n && cut2 <= n);
    let data: [u8; SPL] = kani::any();

    let mut e2 = EncrypterHalf { session_key: key, index, previous_value: prev };
    let mut b = data;
    e2.encrypt(&mut b[..cut]);
    e2.encrypt(&mut b[cut..n]);
    // the two calls together satisfy the recurrence across the cut, i.e. they equal one call
    let mut ei = index as usize;
    let mut i = 0;
    while i < n {
        let cprev = if i == 0 { prev } else { b[i - 1] };
        assert!(b[i].wrapping_sub(cprev) == data[i] ^ key[ei], "C07: chunking changed the ciphertext");
        ei = if ei + 1 == KL { 0 } else { ei + 1 };
        i += 1;
    }
    let ep = if n == 0 { prev } else { b[n - 1] };
    assert!(e2.index as usize == ei && e2.previous_value == ep, "C07: chunking changed the encrypter state");

    // receiver with its own chunking
    let mut d = DecrypterHalf { session_key: key, index, previous_value: prev };
    d.decrypt(&mut b[..cut2]);
    d.decrypt(&mut b[cut2..n]);
    let mut i = 0;
    while i < SPL {
        assert!(b[i] == data[i], "C07: receiver did not recover the plaintext");
        i += 1;
    }
    assert!(d.index == e2.index && d.previous_value == e2.previous_value, "C07: halves out of step after a round trip");
    kani::cover!(cut == 0 && n > 0, "empty first piece");
    kani::cover!(cut == n && n > 0 && index > 35, "empty second piece, key position wraps");
    kani::cover!(cut != cut2 && cut > 0 && cut2 > 0 && cut < n && cut2 < n, "different chunking on both sides");
}

/// C07: halves handed out by the public constructors start at (raw session key, 0, 0).
#[kani::proof]
#[kani::unwind(80)]
#[kani::stub(core::str::from_utf8, verif_oracle::from_utf8_model)]
fn c07_init() {
    let key: [u8; KL] = kani::any();
    let name = crate::normalized_string::verif_h::any_name(16);
    let seed = ProofSeed { seed: kani::any() };
    let (_proof, c) = seed.into_client_header_crypto(&name, key, kani::any());
    assert!(key_eq(&c.encrypt.session_key, &key) && key_eq(&c.decrypt.session_key, &key), "C07: client halves keyed wrongly");
    assert!(c.encrypt.index == 0 && c.encrypt.previous_value == 0, "C07: client encrypter not at start");
    assert!(c.decrypt.index == 0 && c.decrypt.previous_value == 0, "C07: client decrypter not at start");
    let h = HeaderCrypto::new(key);
    assert!(key_eq(&h.encrypt.session_key, &key) && key_eq(&h.decrypt.session_key, &key));
    assert!(h.encrypt.index == 0 && h.encrypt.previous_value == 0 && h.decrypt.index == 0 && h.decrypt.previous_value == 0);
    // server side: any accepted login yields the same starting state
    let sseed = ProofSeed { seed: kani::any() };
    let proof: [u8; 20] = kani::any();
    match sseed.into_server_header_crypto(&name, key, proof, kani::any()) {
        Ok(s) => {
            assert!(key_eq(&s.encrypt.session_key, &key) && key_eq(&s.decrypt.session_key, &key), "C07: server halves keyed wrongly");
            assert!(s.encrypt.index == 0 && s.encrypt.previous_value == 0 && s.decrypt.index == 0 && s.decrypt.previous_value == 0, "C07: server halves not at start");
            kani::cover!(true, "server accepted");
        }
        Err(_) => {
            kani::cover!(true, "server refused");
        }
    }
}


// =================================================================================================
// C11 / C12 helpers shared with the TBC and Wrath harness files
// =================================================================================================
use std::io::{self, ErrorKind, Read, Write};

pub(crate) const MAX_IO_CALLS: u8 = 8;

fn any_error_kind() -> ErrorKind {
    let k: u8 = kani::any();
    match k {
        0 => ErrorKind::UnexpectedEof,
        1 => ErrorKind::ConnectionReset,
        2 => ErrorKind::ConnectionAborted,
        3 => ErrorKind::BrokenPipe,
        4 => ErrorKind::TimedOut,
        5 => ErrorKind::WouldBlock,
        6 => ErrorKind::InvalidData,
        _ => ErrorKind::Other,
    }
}

/// A reader that delivers a symbolic byte stream in arbitrary fragments, may report interruptions and
/// may fail (error of an arbitrary kind, or end of file) at any point. At most MAX_IO_CALLS calls.
pub(crate) struct AnyReader {
    pub stream: [u8; 8],
    pub pos: usize,
    /// 0: anything may happen at any call; 1: never fails (fragments and interruptions only);
    /// 2: delivers fragments until `fail_at` bytes have been delivered, then fails (no interruptions)
    pub mode: u8,
    pub fail_at: usize,
    /// while `simple_lo <= pos < simple_hi` a call either delivers everything asked for or fails (no
    /// fragmentation, no interruption): keeps two consecutive read_exact loops from multiplying
    pub simple_lo: usize,
    pub simple_hi: usize,
    pub max_calls: u8,
    pub calls: u8,
    pub failed: bool,
    pub interrupted: u8,
    pub fragments: u8,
}

impl AnyReader {
    pub(crate) fn new() -> Self {
        AnyReader { stream: kani::any(), pos: 0, mode: 0, fail_at: 0, simple_lo: 0, simple_hi: 0, max_calls: MAX_IO_CALLS, calls: 0, failed: false, interrupted: 0, fragments: 0 }
    }
}

impl Read for AnyReader {
    fn read(&mut self, buf: &mut [u8]) -> io::Result<usize> {
        self.calls += 1;
        kani::assume(self.calls <= self.max_calls);
        let choice: u8 = kani::any();
        if self.pos >= self.simple_lo && self.pos < self.simple_hi {
            if choice == 1 {
                self.failed = true;
                return Err(any_error_kind().into());
            }
            if choice == 2 {
                self.failed = true;
                return Ok(0);
            }
            let k = if buf.len() < 8 - self.pos { buf.len() } else { 8 - self.pos };
            let mut i = 0;
            while i < 8 {
                if i < k {
                    buf[i] = self.stream[self.pos + i];
                }
                i += 1;
            }
            self.pos += k;
            self.fragments += 1;
            return Ok(k);
        }
        if self.mode == 2 {
            if self.pos == self.fail_at {
                self.failed = true;
                if choice == 2 {
                    return Ok(0);
                }
                return Err(any_error_kind().into());
            }
        } else {
            if choice == 0 {
                self.interrupted += 1;
                return Err(ErrorKind::Interrupted.into());
            }
            if self.mode == 0 && choice == 1 {
                self.failed = true;
                return Err(any_error_kind().into());
            }
            if self.mode == 0 && choice == 2 {
                self.failed = true;
                return Ok(0);
            }
        }
        let k: usize = kani::any();
        kani::assume(k >= 1 && k <= buf.len() && k <= 8 - self.pos);
        kani::assume(self.mode != 2 || k <= self.fail_at - self.pos);
        // constant trip count (k <= 8): a symbolic bound would be unrolled up to the unwind limit on every call
        let mut i = 0;
        while i < 8 {
            if i < k {
                buf[i] = self.stream[self.pos + i];
            }
            i += 1;
        }
        self.pos += k;
        self.fragments += 1;
        Ok(k)
    }
}

/// A writer that accepts bytes in arbitrary short writes, may report interruptions, may fail with an
/// error of an arbitrary kind or accept zero bytes (full sink). At most MAX_IO_CALLS calls.
pub(crate) struct AnyWriter {
    pub sink: [u8; 8],
    pub pos: usize,
    pub calls: u8,
    pub failed: bool,
}

impl AnyWriter {
    pub(crate) fn new() -> Self {
        AnyWriter { sink: [0; 8], pos: 0, calls: 0, failed: false }
    }
}

impl Write for AnyWriter {
    fn write(&mut self, buf: &[u8]) -> io::Result<usize> {
        self.calls += 1;
        kani::assume(self.calls <= MAX_IO_CALLS);
        let choice: u8 = kani::any();
        if choice == 0 {
            return Err(ErrorKind::Interrupted.into());
        }
        if choice == 1 {
            self.failed = true;
            return Err(any_error_kind().into());
        }
        if choice == 2 {
            self.failed = true;
            return Ok(0);
        }
        let k: usize = kani::any();
        kani::assume(k >= 1 && k <= buf.len() && k <= 8 - self.pos);
        let mut i = 0;
        while i < 8 {
            if i < k {
                self.sink[self.pos + i] = buf[i];
            }
            i += 1;
        }
        self.pos += k;
        Ok(k)
    }
    fn flush(&mut self) -> io::Result<()> {
        Ok(())
    }
}

fn any_enc() -> EncrypterHalf {
    let (key, index, prev) = any_state();
    EncrypterHalf { session_key: key, index, previous_value: prev }
}
fn any_dec() -> DecrypterHalf {
    let (key, index, prev) = any_state();
    DecrypterHalf { session_key: key, index, previous_value: prev }
}
fn enc_same(a: &EncrypterHalf, b: &EncrypterHalf) -> bool {
    key_eq(&a.session_key, &b.session_key) && a.index == b.index && a.previous_value == b.previous_value
}
fn dec_same(a: &DecrypterHalf, b: &DecrypterHalf) -> bool {
    key_eq(&a.session_key, &b.session_key) && a.index == b.index && a.previous_value == b.previous_value
}
/// a combined object in an arbitrary reachable state: both halves carry the same key
fn any_crypto() -> HeaderCrypto {
    let e = any_enc();
    let mut d = any_dec();
    d.session_key = e.session_key;
    HeaderCrypto { decrypt: d, encrypt: e }
}

// =================================================================================================
// C11
// =================================================================================================

/// C11: typed helpers and facade methods == raw operation on the wire layout, same post-state.
#[kani::proof]
#[kani::unwind(42)]
fn c11_typed_helpers() {
    let h0 = any_crypto();
    let size: u16 = kani::any();
    let op16: u16 = kani::any();
    let op32: u32 = kani::any();
    let sz = size.to_be_bytes();
    let o16 = op16.to_le_bytes();
    let o32 = op32.to_le_bytes();

    // server header, encrypt side: half, facade, accessor
    let mut raw_e = h0.encrypt.clone();
    let mut raw = [sz[0], sz[1], o16[0], o16[1]];
    raw_e.encrypt(&mut raw);
    let mut e1 = h0.encrypt.clone();
    let a = e1.encrypt_server_header(size, op16);
    assert!(a == raw, "C11: encrypt_server_header differs from raw encrypt of the wire layout");
    assert!(enc_same(&e1, &raw_e), "C11: encrypt_server_header leaves another state than raw encrypt");
    let mut f = h0.clone();
    let b = f.encrypt_server_header(size, op16);
    assert!(b == raw && enc_same(&f.encrypt, &raw_e) && dec_same(&f.decrypt, &h0.decrypt), "C11: facade encrypt_server_header differs");
    let mut f = h0.clone();
    let c = f.encrypter().encrypt_server_header(size, op16);
    assert!(c == raw && enc_same(&f.encrypt, &raw_e), "C11: encrypter() accessor is not the encrypt half");
    let mut f = h0.clone();
    let mut d = [sz[0], sz[1], o16[0], o16[1]];
    f.encrypt(&mut d);
    assert!(d == raw && enc_same(&f.encrypt, &raw_e) && dec_same(&f.decrypt, &h0.decrypt), "C11: facade encrypt differs from the half");

    // client header, encrypt side
    let mut raw_e6 = h0.encrypt.clone();
    let mut raw6 = [sz[0], sz[1], o32[0], o32[1], o32[2], o32[3]];
    raw_e6.encrypt(&mut raw6);
    let mut e2 = h0.encrypt.clone();
    assert!(e2.encrypt_client_header(size, op32) == raw6 && enc_same(&e2, &raw_e6), "C11: encrypt_client_header differs from raw");
    let mut f = h0.clone();
    assert!(f.encrypt_client_header(size, op32) == raw6 && enc_same(&f.encrypt, &raw_e6) && dec_same(&f.decrypt, &h0.decrypt), "C11: facade encrypt_client_header differs");

    // decrypt side
    let wire4: [u8; 4] = kani::any();
    let wire6: [u8; 6] = kani::any();
    let mut raw_d = h0.decrypt.clone();
    let mut p4 = wire4;
    raw_d.decrypt(&mut p4);
    let exp4 = ServerHeader { size: u16::from_be_bytes([p4[0], p4[1]]), opcode: u16::from_le_bytes([p4[2], p4[3]]) };
    let mut d1 = h0.decrypt.clone();
    assert!(d1.decrypt_server_header(wire4) == exp4 && dec_same(&d1, &raw_d), "C11: decrypt_server_header differs from raw");
    let mut f = h0.clone();
    assert!(f.decrypt_server_header(wire4) == exp4 && dec_same(&f.decrypt, &raw_d) && enc_same(&f.encrypt, &h0.encrypt), "C11: facade decrypt_server_header differs");
    let mut f = h0.clone();
    assert!(f.decrypter().decrypt_server_header(wire4) == exp4 && dec_same(&f.decrypt, &raw_d), "C11: decrypter() accessor is not the decrypt half");
    let mut f = h0.clone();
    let mut q4 = wire4;
    f.decrypt(&mut q4);
    assert!(q4 == p4 && dec_same(&f.decrypt, &raw_d) && enc_same(&f.encrypt, &h0.encrypt), "C11: facade decrypt differs from the half");

    let mut raw_d6 = h0.decrypt.clone();
    let mut p6 = wire6;
    raw_d6.decrypt(&mut p6);
    let exp6 = ClientHeader { size: u16::from_be_bytes([p6[0], p6[1]]), opcode: u32::from_le_bytes([p6[2], p6[3], p6[4], p6[5]]) };
    let mut d2 = h0.decrypt.clone();
    assert!(d2.decrypt_client_header(wire6) == exp6 && dec_same(&d2, &raw_d6), "C11: decrypt_client_header differs from raw");
    let mut f = h0.clone();
    assert!(f.decrypt_client_header(wire6) == exp6 && dec_same(&f.decrypt, &raw_d6) && enc_same(&f.encrypt, &h0.encrypt), "C11: facade decrypt_client_header differs");

    // layout constructors
    assert!(ServerHeader::from_array(p4) == exp4 && ClientHeader::from_array(p6) == exp6, "C11: layout constructors differ from the wire layout");
    kani::cover!(size == 0x0102 && op32 == 0x0A0B0C0D, "asymmetric header");
}

/// a combined object at a concrete key position shortly before the wrap (the I/O plumbing does not
/// depend on the position; position generality is the step lemma of C07/C08)
fn any_crypto_io() -> HeaderCrypto {
    let mut h = any_crypto();
    h.decrypt.index = (KL - 3) as u8;
    h.encrypt.index = (KL - 2) as u8;
    h
}

/// C11: read wrappers under arbitrary fragmentation, interruptions and failures.
/// N = 6: client header, N = 4: server header; `facade`: through HeaderCrypto. Returns (ok, reader).
fn read_wrapper<const N: usize>(facade: bool) -> (bool, AnyReader) {
    let h0 = any_crypto_io();
    let mut rd = AnyReader::new();
    let mut h = h0.clone();
    // raw reference on the first N bytes of the stream
    let mut raw_d = h0.decrypt.clone();
    let mut p = [rd.stream[0], rd.stream[1], rd.stream[2], rd.stream[3], rd.stream[4], rd.stream[5]];
    raw_d.decrypt(&mut p[..N]);
    let size = u16::from_be_bytes([p[0], p[1]]);
    let (ok, got_size, got_opcode) = if N == 6 {
        let r = if facade { h.read_and_decrypt_client_header(&mut rd) } else { h.decrypt.read_and_decrypt_client_header(&mut rd) };
        match r {
            Ok(hd) => (true, hd.size, hd.opcode),
            Err(e) => {
                core::mem::forget(e);
                (false, 0, 0)
            }
        }
    } else {
        let r = if facade { h.read_and_decrypt_server_header(&mut rd) } else { h.decrypt.read_and_decrypt_server_header(&mut rd) };
        match r {
            Ok(hd) => (true, hd.size, hd.opcode as u32),
            Err(e) => {
                core::mem::forget(e);
                (false, 0, 0)
            }
        }
    };
    if ok {
        let opcode = if N == 6 { u32::from_le_bytes([p[2], p[3], p[4], p[5]]) } else { u16::from_le_bytes([p[2], p[3]]) as u32 };
        assert!(!rd.failed && rd.pos == N, "C11: header returned although the reader failed or bytes are missing");
        assert!(got_size == size && got_opcode == opcode, "C11: read wrapper differs from raw decrypt of the delivered bytes");
        assert!(dec_same(&h.decrypt, &raw_d), "C11: read wrapper leaves another state than raw decrypt");
    } else {
        assert!(rd.failed, "C11: read wrapper failed although the reader did not");
        assert!(dec_same(&h.decrypt, &h0.decrypt), "C11: failed read changed the decrypter");
    }
    assert!(enc_same(&h.encrypt, &h0.encrypt), "C11: reading changed the encrypter");
    (ok, rd)
}

fn read_covers<const N: usize>(ok: bool, rd: &AnyReader) {
    kani::cover!(ok && rd.fragments >= 3 && rd.interrupted >= 1, "three fragments and an interruption");
    kani::cover!(!ok && rd.pos == N - 1, "failure after all but one byte");
    kani::cover!(!ok && rd.pos == 0, "failure before the first byte");
}

#[kani::proof]
#[kani::unwind(42)]
fn c11_read_client() {
    let (ok, rd) = read_wrapper::<6>(false);
    read_covers::<6>(ok, &rd);
}
#[kani::proof]
#[kani::unwind(42)]
fn c11_read_client_facade() {
    let (ok, rd) = read_wrapper::<6>(true);
    read_covers::<6>(ok, &rd);
}
#[kani::proof]
#[kani::unwind(42)]
fn c11_read_server() {
    let (ok, rd) = read_wrapper::<4>(false);
    read_covers::<4>(ok, &rd);
}
#[kani::proof]
#[kani::unwind(42)]
fn c11_read_server_facade() {
    let (ok, rd) = read_wrapper::<4>(true);
    read_covers::<4>(ok, &rd);
}

/// C11: write wrappers: bytes written == encrypted header; a failing writer's error is reported.
fn write_wrapper<const N: usize>(facade: bool) -> (bool, AnyWriter) {
    let h0 = any_crypto_io();
    let size: u16 = kani::any();
    let op16: u16 = kani::any();
    let op32: u32 = kani::any();
    let mut wr = AnyWriter::new();
    let mut h = h0.clone();
    let mut ref_e = h0.encrypt.clone();
    let mut exp = [0u8; 6];
    if N == 6 {
        let x = ref_e.encrypt_client_header(size, op32);
        let mut i = 0;
        while i < 6 {
            exp[i] = x[i];
            i += 1;
        }
    } else {
        let x = ref_e.encrypt_server_header(size, op16);
        let mut i = 0;
        while i < 4 {
            exp[i] = x[i];
            i += 1;
        }
    }
    let r = if N == 6 {
        if facade { h.write_encrypted_client_header(&mut wr, size, op32) } else { h.encrypt.write_encrypted_client_header(&mut wr, size, op32) }
    } else if facade {
        h.write_encrypted_server_header(&mut wr, size, op16)
    } else {
        h.encrypt.write_encrypted_server_header(&mut wr, size, op16)
    };
    let ok = match r {
        Ok(()) => true,
        Err(e) => {
            core::mem::forget(e);
            false
        }
    };
    if ok {
        assert!(!wr.failed, "C11: a failing writer's error was swallowed");
        assert!(wr.pos == N, "C11: write wrapper reported success without writing the whole header");
    } else {
        assert!(wr.failed, "C11: write wrapper failed although the writer did not");
    }
    // the bytes that reached the sink are a prefix of (on success: all of) the encrypted header
    let mut i = 0;
    while i < 6 {
        if i < wr.pos {
            assert!(wr.sink[i] == exp[i], "C11: bytes written differ from the encrypted header");
        }
        i += 1;
    }
    assert!(wr.pos <= N, "C11: more bytes written than the header has");
    assert!(enc_same(&h.encrypt, &ref_e), "C11: write wrapper leaves another encrypter state than the typed helper");
    assert!(dec_same(&h.decrypt, &h0.decrypt), "C11: writing changed the decrypter");
    (ok, wr)
}

fn write_covers<const N: usize>(ok: bool, wr: &AnyWriter) {
    kani::cover!(ok && wr.calls >= 3, "header written in three or more calls");
    kani::cover!(!ok && wr.pos == N - 1, "writer failed before the last byte");
}

#[kani::proof]
#[kani::unwind(42)]
fn c11_write_client() {
    let (ok, wr) = write_wrapper::<6>(false);
    write_covers::<6>(ok, &wr);
}
#[kani::proof]
#[kani::unwind(42)]
fn c11_write_client_facade() {
    let (ok, wr) = write_wrapper::<6>(true);
    write_covers::<6>(ok, &wr);
}
#[kani::proof]
#[kani::unwind(42)]
fn c11_write_server() {
    let (ok, wr) = write_wrapper::<4>(false);
    write_covers::<4>(ok, &wr);
}
#[kani::proof]
#[kani::unwind(42)]
fn c11_write_server_facade() {
    let (ok, wr) = write_wrapper::<4>(true);
    write_covers::<4>(ok, &wr);
}

// =================================================================================================
// C12
// =================================================================================================

/// C12: encrypting never touches the decrypt half and gives what a lone half gives, and vice versa.
#[kani::proof]
#[kani::unwind(42)]
fn c12_frame() {
    let h0 = any_crypto();
    let data: [u8; 6] = kani::any();
    let n: usize = kani::any();
    kani::assume(n <= 6);
    let mut h = h0.clone();
    let mut a = data;
    h.encrypt(&mut a[..n]);
    let mut lone = h0.encrypt.clone();
    let mut b = data;
    lone.encrypt(&mut b[..n]);
    assert!(a == b, "C12: combined object encrypts differently from a lone half");
    assert!(enc_same(&h.encrypt, &lone), "C12: combined object's encrypt half differs from a lone half");
    assert!(dec_same(&h.decrypt, &h0.decrypt), "C12: encrypting changed the decrypt half");
    let mut h = h0.clone();
    let mut a = data;
    h.decrypt(&mut a[..n]);
    let mut lone = h0.decrypt.clone();
    let mut b = data;
    lone.decrypt(&mut b[..n]);
    assert!(a == b, "C12: combined object decrypts differently from a lone half");
    assert!(dec_same(&h.decrypt, &lone), "C12: combined object's decrypt half differs from a lone half");
    assert!(enc_same(&h.encrypt, &h0.encrypt), "C12: decrypting changed the encrypt half");
    kani::cover!(n == 6, "six bytes");
}

/// C12: split / clone / unsplit lose nothing; unsplit succeeds exactly when the keys are equal.
#[kani::proof]
#[kani::unwind(42)]
fn c12_split_unsplit() {
    let h0 = any_crypto();
    let c = h0.clone();
    assert!(c == h0 && enc_same(&c.encrypt, &h0.encrypt) && dec_same(&c.decrypt, &h0.decrypt), "C12: clone differs");
    let (e, d) = c.split();
    assert!(enc_same(&e, &h0.encrypt) && dec_same(&d, &h0.decrypt), "C12: split changed a half");
    assert!(e.is_pair_of(&d) && d.is_pair_of(&e), "C12: halves of one object are not a pair");
    match e.unsplit(d) {
        Ok(j) => {
            assert!(enc_same(&j.encrypt, &h0.encrypt), "C12: unsplit changed the encrypt half");
            assert!(dec_same(&j.decrypt, &h0.decrypt), "C12: unsplit changed the decrypt half");
            kani::cover!(h0.encrypt.index != h0.decrypt.index && h0.encrypt.previous_value != h0.decrypt.previous_value, "halves at different positions re-joined");
        }
        Err(_) => {
            assert!(false, "C12: unsplit refused the halves of one object");
        }
    }

    // arbitrary pair of halves
    let e = any_enc();
    let d = any_dec();
    let same = key_eq(&e.session_key, &d.session_key);
    assert!(e.is_pair_of(&d) == same && d.is_pair_of(&e) == same, "C12: is_pair_of is not equality of all 40 key bytes");
    let e0 = e.clone();
    let d0 = d.clone();
    match e.unsplit(d) {
        Ok(j) => {
            assert!(same, "C12: unsplit joined halves with different session keys");
            assert!(enc_same(&j.encrypt, &e0) && dec_same(&j.decrypt, &d0), "C12: unsplit altered a half");
            kani::cover!(true, "joined");
        }
        Err(_) => {
            assert!(!same, "C12: unsplit refused halves with equal session keys");
            let mut others_equal = true;
            let mut i = 0;
            while i < 39 {
                if e0.session_key[i] != d0.session_key[i] {
                    others_equal = false;
                }
                i += 1;
            }
            kani::cover!(others_equal, "keys differing in the last byte only are refused");
        }
    }
}

// =================================================================================================
// C06: world-login proof
// =================================================================================================
fn world_proof_spec(name: &crate::normalized_string::NormalizedString, sk: &[u8; 40], client_seed: u32, server_seed: u32) -> [u8; 20] {
    let (nb, nl) = crate::normalized_string::verif_h::name_bytes(name);
    verif_oracle::sha1_of(&[&nb[..nl], &0u32.to_le_bytes(), &client_seed.to_le_bytes(), &server_seed.to_le_bytes(), sk])
}

fn p20_eq(a: &[u8; 20], b: &[u8; 20]) -> bool {
    let mut eq = true;
    let mut i = 0;
    while i < 20 {
        if a[i] != b[i] {
            eq = false;
        }
        i += 1;
    }
    eq
}

/// C06: the client's proof is SHA-1(name | 0u32 | own seed LE | server seed LE | session key); the seed
/// accessor returns the 4-byte draw and that value is the one used.
#[kani::proof]
#[kani::unwind(80)]
#[kani::stub(core::str::from_utf8, verif_oracle::from_utf8_model)]
fn c06_vanilla_client_msg() {
    let name = crate::normalized_string::verif_h::any_name(16);
    let sk: [u8; 40] = kani::any();
    let server_seed: u32 = kani::any();
    let seed = ProofSeed::new();
    assert!(verif_oracle::n_draws() == 1 && verif_oracle::draw_len(0) == 4, "C06: ProofSeed::new does not draw exactly four random bytes");
    let d = verif_oracle::draw_bytes(0);
    let own = seed.seed();
    assert!(own == u32::from_le_bytes([d[0], d[1], d[2], d[3]]), "C06: seed accessor is not the value drawn");
    let expected = world_proof_spec(&name, &sk, own, server_seed);
    let (proof, _c) = seed.into_client_header_crypto(&name, sk, server_seed);
    assert!(p20_eq(&proof, &expected), "C06: client proof is not SHA-1(name | 0 | client seed | server seed | session key)");
    kani::cover!(own == 0 && server_seed == 0xFFFF_FFFF, "boundary seeds");
    kani::cover!(name.as_ref().len() == 16, "16-byte name");
    kani::cover!(name.as_ref().len() == 1, "1-byte name");
}

/// C06: the server hands out header crypto exactly when the presented proof equals the value for its own seed.
#[kani::proof]
#[kani::unwind(80)]
#[kani::stub(core::str::from_utf8, verif_oracle::from_utf8_model)]
fn c06_vanilla_server_decision() {
    let name = crate::normalized_string::verif_h::any_name(16);
    let sk: [u8; 40] = kani::any();
    let own: u32 = kani::any();
    let client_seed: u32 = kani::any();
    let presented: [u8; 20] = kani::any();
    let expected = world_proof_spec(&name, &sk, client_seed, own);
    let seed = ProofSeed { seed: own };
    assert!(seed.seed() == own, "C06: seed accessor differs from the stored seed");
    match seed.into_server_header_crypto(&name, sk, presented, client_seed) {
        Ok(_c) => {
            assert!(p20_eq(&presented, &expected), "C06: header crypto handed out for a proof that is not the expected one");
            kani::cover!(true, "accepted");
        }
        Err(e) => {
            assert!(!p20_eq(&presented, &expected), "C06: the correct proof was refused");
            assert!(p20_eq(&e.client_proof, &presented), "C06: error does not carry the presented proof");
            assert!(p20_eq(&e.server_proof, &expected), "C06: error does not carry the server's proof");
            let mut diff = 0u32;
            let mut i = 0;
            while i < 20 {
                diff += (presented[i] ^ expected[i]).count_ones();
                i += 1;
            }
            kani::cover!(diff == 1 && presented[19] != expected[19], "single-bit change in the last byte refused");
            kani::cover!(diff == 2, "two-bit change refused");
        }
    }
    kani::cover!(own == client_seed, "equal seeds");
}
