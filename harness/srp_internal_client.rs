// Harnesses injected as child module `verif_h` of `srp_internal_client`.
#![allow(dead_code, unused_imports, non_snake_case)]
use super::*;
// explicit imports: the harness must not depend on which names the parent module happens to import
#[allow(unused_imports)]
use crate::error::{InvalidPublicKeyError, MatchProofsError};
#[allow(unused_imports)]
use crate::key::{PrivateKey, Proof, PublicKey, ReconnectData, SKey, Salt, SessionKey, Sha1Hash, Verifier};
#[allow(unused_imports)]
use crate::normalized_string::NormalizedString;
#[allow(unused_imports)]
use crate::primes::{Generator, KValue, LargeSafePrime};
use crate::normalized_string::verif_h::{any_name, name_bytes};
use crate::server::verif_h::{eq20, eq32, eq40};
use crate::srp_internal::verif_h::{any_valid_public_key, big, pad32};
use num_bigint::{BigInt, Sign};

fn nonzero32() -> [u8; 32] {
    let n: [u8; 32] = kani::any();
    let mut z = true;
    let mut i = 0;
    while i < 32 {
        if n[i] != 0 {
            z = false;
        }
        i += 1;
    }
    kani::assume(!z);
    n
}

/// C03: client A = g^a mod N' for the announced group; refused only when 0 (or N', impossible below N').
#[kani::proof]
#[kani::unwind(66)]
fn c03_a_client() {
    let a: [u8; 32] = kani::any();
    let g: u8 = kani::any();
    let n = nonzero32();
    let val = BigInt::from(g).modpow(&big(&a), &big(&n));
    let expected = pad32(&val);
    match calculate_client_public_key(&PrivateKey::from_le_bytes(a), &Generator::from(g), &LargeSafePrime::from_le_bytes(n)) {
        Ok(k) => {
            assert!(eq32(k.as_le_bytes(), &expected), "C03: client A is not g^a mod N for the announced group");
            kani::cover!(g != 7, "another generator");
            kani::cover!(expected[31] == 0 && expected[30] == 0, "A with high zero bytes");
        }
        Err(_) => {
            assert!(val.is_zero_model(), "C03: a non-zero client A was refused");
            kani::cover!(true, "A = 0 refused");
        }
    }
}

/// C03/C14: client S = (B - 3*g^x)^(a + u*x) mod N' for the announced group, zero padded; no panic.
#[kani::proof]
#[kani::unwind(66)]
fn c03_s_client() {
    let b = any_valid_public_key();
    let x: [u8; 20] = kani::any();
    let a: [u8; 32] = kani::any();
    let u: [u8; 20] = kani::any();
    let g: u8 = kani::any();
    let n = nonzero32();
    let base = big(b.as_le_bytes()) - BigInt::from(3u8) * BigInt::from(g).modpow(&big(&x), &big(&n));
    let exp = big(&a) + big(&u) * big(&x);
    let val = base.modpow(&exp, &big(&n));
    let expected = pad32(&val);
    let s = calculate_client_S(
        &b,
        &Sha1Hash::from_le_bytes(x),
        &PrivateKey::from_le_bytes(a),
        &Sha1Hash::from_le_bytes(u),
        &Generator::from(g),
        &LargeSafePrime::from_le_bytes(n),
    );
    assert!(eq32(s.as_le_bytes(), &expected), "C03: client S is not (B - 3*g^x)^(a + u*x) mod N, zero-padded");
    kani::cover!(base.is_negative_model(), "B - k*g^x negative before reduction");
    kani::cover!(val.is_zero_model(), "S = 0");
    kani::cover!(g == 7 && eq32(&n, &crate::srp_internal::verif_h::N_LE), "built-in group");
    kani::cover!(expected[31] == 0 && expected[30] == 0 && expected[29] != 0, "S with two high zero bytes");
}

/// C03: M1 with the xor value computed for the announced group
#[kani::proof]
#[kani::unwind(42)]
#[kani::stub(core::str::from_utf8, verif_oracle::from_utf8_model)]
fn c03_m1_custom() {
    let name = any_name(16);
    let k: [u8; 40] = kani::any();
    let a = any_valid_public_key();
    let b = any_valid_public_key();
    let salt: [u8; 32] = kani::any();
    let n: [u8; 32] = kani::any();
    let g: u8 = kani::any();
    let hn = verif_oracle::sha1_of(&[&n]);
    let hg = verif_oracle::sha1_of(&[&[g]]);
    let mut xor = [0u8; 20];
    let mut i = 0;
    while i < 20 {
        xor[i] = hn[i] ^ hg[i];
        i += 1;
    }
    let (nb, nl) = name_bytes(&name);
    let uh = verif_oracle::sha1_of(&[&nb[..nl]]);
    let expected = verif_oracle::sha1_of(&[&xor, &uh, &salt, a.as_le_bytes(), b.as_le_bytes(), &k]);
    let m1 = calculate_client_proof_with_custom_value(
        &name,
        &SessionKey::from_le_bytes(k),
        &a,
        &b,
        &Salt::from_le_bytes(salt),
        LargeSafePrime::from_le_bytes(n),
        Generator::from(g),
    );
    assert!(eq20(m1.as_le_bytes(), &expected), "C03: client M1 is not H(H(N')^H(g') | H(U) | salt | A | B | K) for the announced group");
    kani::cover!(eq32(&n, &crate::srp_internal::verif_h::N_LE) && g != 7, "built-in prime with another generator");
    kani::cover!(name.as_ref().len() == 16, "16-byte name");
}

// ---- uninterpreted stubs for the callers' harnesses ----
fn out20(o: &[u8; 40]) -> [u8; 20] {
    let mut r = [0u8; 20];
    let mut i = 0;
    while i < 20 {
        r[i] = o[i];
        i += 1;
    }
    r
}
fn out32(o: &[u8; 40]) -> [u8; 32] {
    let mut r = [0u8; 32];
    let mut i = 0;
    while i < 32 {
        r[i] = o[i];
        i += 1;
    }
    r
}
/// A as an uninterpreted function of (a, g, N); the documented "generated key is invalid" case is excluded
pub(crate) fn stub_client_public_key(a: &PrivateKey, g: &Generator, n: &LargeSafePrime) -> Result<PublicKey, InvalidPublicKeyError> {
    verif_oracle::bump(6);
    verif_oracle::ghost_store(6, a.as_le_bytes());
    let o = verif_oracle::uf(verif_oracle::USER + 6, &[a.as_le_bytes(), &[g.as_u8()], n.as_le_bytes()]);
    match PublicKey::from_le_bytes(out32(&o)) {
        Ok(k) => Ok(k),
        Err(_) => {
            kani::assume(false);
            unreachable!()
        }
    }
}
pub(crate) fn stub_client_S(b: &PublicKey, x: &Sha1Hash, a: &PrivateKey, u: &Sha1Hash, g: &Generator, n: &LargeSafePrime) -> SKey {
    verif_oracle::bump(5);
    let o = verif_oracle::uf(verif_oracle::USER + 5, &[b.as_le_bytes(), x.as_le_bytes(), a.as_le_bytes(), u.as_le_bytes(), &[g.as_u8()], n.as_le_bytes()]);
    SKey::from_le_bytes(out32(&o))
}
pub(crate) fn stub_client_proof_custom(
    name: &NormalizedString,
    k: &SessionKey,
    a: &PublicKey,
    b: &PublicKey,
    salt: &Salt,
    n: LargeSafePrime,
    g: Generator,
) -> Proof {
    verif_oracle::bump(4);
    let (nb, nl) = name_bytes(name);
    let o = verif_oracle::uf(
        verif_oracle::USER + 4,
        &[k.as_le_bytes(), a.as_le_bytes(), b.as_le_bytes(), salt.as_le_bytes(), n.as_le_bytes(), &[g.as_u8()], &nb, &[nl as u8]],
    );
    Proof::from_le_bytes(out20(&o))
}

/// C03 (history of two groups in one process): a client that talks to a second server announcing another
/// group computes A = g2^a2 mod N2 for that group — nothing about the first group may linger.
#[kani::proof]
#[kani::unwind(66)]
fn c03_a_client_twice() {
    let a1: [u8; 32] = kani::any();
    let g1: u8 = kani::any();
    let n1 = nonzero32();
    let a2: [u8; 32] = kani::any();
    let g2: u8 = kani::any();
    let n2 = nonzero32();
    let _first = calculate_client_public_key(&PrivateKey::from_le_bytes(a1), &Generator::from(g1), &LargeSafePrime::from_le_bytes(n1));
    let val = BigInt::from(g2).modpow(&big(&a2), &big(&n2));
    let expected = pad32(&val);
    match calculate_client_public_key(&PrivateKey::from_le_bytes(a2), &Generator::from(g2), &LargeSafePrime::from_le_bytes(n2)) {
        Ok(k) => {
            assert!(eq32(k.as_le_bytes(), &expected), "C03: the second client key is not g^a mod N for the group announced the second time");
            kani::cover!(!eq32(&n1, &n2), "two different primes in a row");
        }
        Err(_) => {
            assert!(val.is_zero_model(), "C03: a non-zero client A was refused");
        }
    }
}
