// Harnesses and helpers injected as child module `verif_h` of `normalized_string`.
#![allow(dead_code, unused_imports)]
use super::*;

/// An arbitrary value satisfying the representation invariant of `NormalizedString`:
/// 1..=max_len bytes, each printable ASCII and not a lower-case letter, unused bytes zero.
pub(crate) fn any_name(max_len: u8) -> NormalizedString {
    let s: [u8; 16] = kani::any();
    let length: u8 = kani::any();
    kani::assume(length >= 1 && length <= max_len && length <= 16);
    let mut i = 0;
    while i < 16 {
        if (i as u8) < length {
            kani::assume(s[i] >= 0x20 && s[i] <= 0x7E && !(s[i] >= b'a' && s[i] <= b'z'));
        } else {
            kani::assume(s[i] == 0);
        }
        i += 1;
    }
    NormalizedString { s, length }
}

pub(crate) fn name_bytes(n: &NormalizedString) -> ([u8; 16], usize) {
    (n.s, n.length as usize)
}

use crate::error::NormalizedStringError;
use core::convert::TryFrom;

fn upper(b: u8) -> u8 {
    if b >= b'a' && b <= b'z' {
        b - 32
    } else {
        b
    }
}

fn allowed(b: u8) -> bool {
    b >= 0x20 && b <= 0x7E
}

/// scalar value of the UTF-8 sequence starting at i (input is valid UTF-8)
fn decode_at<const L: usize>(b: &[u8; L], i: usize) -> u32 {
    let b0 = b[i] as u32;
    if b0 < 0x80 {
        b0
    } else if b0 < 0xE0 {
        ((b0 & 0x1F) << 6) | (b[i + 1] as u32 & 0x3F)
    } else if b0 < 0xF0 {
        ((b0 & 0x0F) << 12) | ((b[i + 1] as u32 & 0x3F) << 6) | (b[i + 2] as u32 & 0x3F)
    } else {
        ((b0 & 0x07) << 18) | ((b[i + 1] as u32 & 0x3F) << 12) | ((b[i + 2] as u32 & 0x3F) << 6) | (b[i + 3] as u32 & 0x3F)
    }
}

/// C13: accept set, stored text, error kinds - every UTF-8 string of at most L bytes.
fn accept<const L: usize>() {
    let bytes: [u8; L] = kani::any();
    let len: usize = kani::any();
    kani::assume(len <= L);
    kani::assume(verif_oracle::utf8_valid(&bytes[..len]));
    let s = verif_oracle::str_unchecked(&bytes[..len]);

    // specification
    let mut all_allowed = true;
    let mut first_bad = L;
    let mut i = 0;
    while i < L {
        if i < len && !allowed(bytes[i]) && all_allowed {
            all_allowed = false;
            first_bad = i;
        }
        i += 1;
    }
    let len_ok = len >= 1 && len <= 16;

    match NormalizedString::new(s) {
        Ok(n) => {
            assert!(len_ok && all_allowed, "C13: a string outside 1..16 printable ASCII bytes was accepted");
            assert!(n.length as usize == len, "C13: stored length differs");
            let mut i = 0;
            while i < 16 {
                if i < len {
                    assert!(n.s[i] == upper(bytes[i]), "C13: stored text is not the upper-cased input");
                } else {
                    assert!(n.s[i] == 0, "C13: padding not zero");
                }
                i += 1;
            }
            // the text view is exactly the stored prefix
            let t = n.as_ref().as_bytes();
            assert!(t.len() == len, "C13: as_ref length differs");
            let mut i = 0;
            while i < 16 {
                if i < len {
                    assert!(t[i] == upper(bytes[i]), "C13: as_ref text differs");
                }
                i += 1;
            }
            kani::cover!(len == 16, "accepted 16-byte string");
            kani::cover!(len == 1, "accepted 1-byte string");
        }
        Err(NormalizedStringError::StringTooLong) => {
            assert!(!len_ok, "C13: length error for a string of 1..16 bytes");
            kani::cover!(len == 0, "empty string");
            kani::cover!(len == 17 && !all_allowed, "17 bytes with a bad character reports length");
        }
        Err(NormalizedStringError::CharacterNotAllowed(c)) => {
            assert!(len_ok, "C13: character error although the length is out of range");
            assert!(!all_allowed, "C13: character error for an allowed string");
            assert!(c as u32 == decode_at::<L>(&bytes, first_bad), "C13: reported character is not the first offending one");
            kani::cover!(len == 16 && bytes[0] >= 0xF0, "16 bytes starting with a 4-byte character");
            kani::cover!(len == 16 && first_bad == 14 && bytes[14] >= 0xC2, "15 ASCII bytes... 14 ASCII + one 2-byte char at the limit");
            kani::cover!(bytes[first_bad] == 0x7F, "DEL refused");
            kani::cover!(bytes[first_bad] < 0x20, "control character refused");
        }
    }
}

#[kani::proof]
#[kani::unwind(26)]
#[kani::stub(core::str::from_utf8, verif_oracle::from_utf8_model)]
fn c13_accept() {
    accept::<24>();
}

fn same_result(a: &Result<NormalizedString, NormalizedStringError>, b: &Result<NormalizedString, NormalizedStringError>) -> bool {
    match (a, b) {
        (Ok(x), Ok(y)) => x == y,
        (Err(NormalizedStringError::StringTooLong), Err(NormalizedStringError::StringTooLong)) => true,
        (Err(NormalizedStringError::CharacterNotAllowed(c)), Err(NormalizedStringError::CharacterNotAllowed(d))) => c == d,
        _ => false,
    }
}

/// C13: all constructors and conversions agree (strings of at most 4 bytes, plus one of 17 ASCII bytes).
#[kani::proof]
#[kani::unwind(19)]
#[kani::stub(core::str::from_utf8, verif_oracle::from_utf8_model)]
fn c13_constructors() {
    const L: usize = 4;
    let bytes: [u8; L] = kani::any();
    let len: usize = kani::any();
    kani::assume(len <= L);
    kani::assume(verif_oracle::utf8_valid(&bytes[..len]));
    let s = verif_oracle::str_unchecked(&bytes[..len]);
    let r = NormalizedString::new(s);
    assert!(same_result(&r, &NormalizedString::from_str(s)), "C13: from_str disagrees with new");
    assert!(same_result(&r, &NormalizedString::try_from(s)), "C13: TryFrom<&str> disagrees with new");
    assert!(same_result(&r, &NormalizedString::from_string(s)), "C13: from_string disagrees with new");
    assert!(same_result(&r, &NormalizedString::try_from(String::from(s))), "C13: TryFrom<String> disagrees with new");
    kani::cover!(r.is_ok(), "accepted");
    kani::cover!(matches!(r, Err(NormalizedStringError::CharacterNotAllowed(_))), "character refused");
    kani::cover!(matches!(r, Err(NormalizedStringError::StringTooLong)), "empty refused");
    let long = "AAAAAAAAAAAAAAAAA";
    assert!(matches!(NormalizedString::from_string(long), Err(NormalizedStringError::StringTooLong)));
    assert!(matches!(NormalizedString::try_from(long), Err(NormalizedStringError::StringTooLong)));
    assert!(matches!(NormalizedString::from_str(long), Err(NormalizedStringError::StringTooLong)));
    assert!(matches!(NormalizedString::try_from(String::from(long)), Err(NormalizedStringError::StringTooLong)));
}

/// C13: normalising is idempotent and case-insensitive (every accepted string, every case variant).
#[kani::proof]
#[kani::unwind(18)]
#[kani::stub(core::str::from_utf8, verif_oracle::from_utf8_model)]
fn c13_case() {
    const L: usize = 16;
    let bytes: [u8; L] = kani::any();
    let len: usize = kani::any();
    kani::assume(len >= 1 && len <= L);
    let mask: [bool; L] = kani::any();
    let mut variant = bytes;
    let mut i = 0;
    while i < L {
        if i < len {
            kani::assume(allowed(bytes[i]));
            let b = bytes[i];
            if mask[i] && ((b >= b'a' && b <= b'z') || (b >= b'A' && b <= b'Z')) {
                variant[i] = b ^ 0x20;
            }
        }
        i += 1;
    }
    let a = NormalizedString::new(verif_oracle::str_unchecked(&bytes[..len])).unwrap();
    let b = NormalizedString::new(verif_oracle::str_unchecked(&variant[..len])).unwrap();
    assert!(a == b, "C13: case variants normalise differently");
    let again = NormalizedString::new(a.as_ref()).unwrap();
    assert!(again == a, "C13: normalising is not idempotent");
    kani::cover!(len == 16 && bytes[0] == b'~' && bytes[1] == b'z' && variant[1] == b'Z', "lower-case z after a tilde");
    kani::cover!(len == 16 && mask[15] && variant[15] != bytes[15], "case flipped in the last byte");
}

struct RecHasher {
    buf: [u8; 48],
    n: usize,
}
impl core::hash::Hasher for RecHasher {
    fn finish(&self) -> u64 {
        0
    }
    fn write(&mut self, bytes: &[u8]) {
        let mut i = 0;
        while i < bytes.len() {
            assert!(self.n < 48, "harness: hasher buffer too small");
            self.buf[self.n] = bytes[i];
            self.n += 1;
            i += 1;
        }
    }
}

fn text_cmp(a: &NormalizedString, b: &NormalizedString) -> core::cmp::Ordering {
    // lexicographic order of the normalised texts
    let mut r = core::cmp::Ordering::Equal;
    let mut decided = false;
    let mut i = 0;
    while i < 16 {
        if !decided {
            let ia = i < a.length as usize;
            let ib = i < b.length as usize;
            if ia && ib {
                if a.s[i] < b.s[i] {
                    r = core::cmp::Ordering::Less;
                    decided = true;
                } else if a.s[i] > b.s[i] {
                    r = core::cmp::Ordering::Greater;
                    decided = true;
                }
            } else if ia && !ib {
                r = core::cmp::Ordering::Greater;
                decided = true;
            } else if !ia && ib {
                r = core::cmp::Ordering::Less;
                decided = true;
            } else {
                decided = true;
            }
        }
        i += 1;
    }
    r
}

/// C13: equality, ordering and hashing follow the normalised text (any two valid values).
#[kani::proof]
#[kani::unwind(50)]
#[kani::stub(core::str::from_utf8, verif_oracle::from_utf8_model)]
fn c13_relations() {
    use core::hash::Hash;
    let a = any_name(16);
    let b = any_name(16);
    let t = text_cmp(&a, &b);
    assert!((a == b) == (t == core::cmp::Ordering::Equal), "C13: == does not follow the text");
    assert!(a.cmp(&b) == t, "C13: cmp does not follow the text");
    assert!(a.partial_cmp(&b) == Some(t), "C13: partial_cmp does not follow the text");
    assert!((a.as_ref() == b.as_ref()) == (t == core::cmp::Ordering::Equal), "C13: text views disagree with ==");
    let mut ha = RecHasher { buf: [0; 48], n: 0 };
    let mut hb = RecHasher { buf: [0; 48], n: 0 };
    a.hash(&mut ha);
    b.hash(&mut hb);
    if t == core::cmp::Ordering::Equal {
        assert!(ha.n == hb.n, "C13: equal texts hash differently");
        let mut i = 0;
        while i < 48 {
            assert!(ha.buf[i] == hb.buf[i], "C13: equal texts hash differently");
            i += 1;
        }
    }
    kani::cover!(t == core::cmp::Ordering::Less && a.length > b.length, "longer text sorts first");
    kani::cover!(t == core::cmp::Ordering::Equal, "equal texts");
    kani::cover!(t == core::cmp::Ordering::Greater && a.length < b.length, "shorter text sorts last");
}

struct Sink {
    buf: [u8; 16],
    n: usize,
}
impl core::fmt::Write for Sink {
    fn write_str(&mut self, s: &str) -> core::fmt::Result {
        let b = s.as_bytes();
        let mut i = 0;
        while i < b.len() {
            assert!(self.n < 16, "harness: sink too small");
            self.buf[self.n] = b[i];
            self.n += 1;
            i += 1;
        }
        Ok(())
    }
}

/// C13: Display writes exactly the normalised text.
#[kani::proof]
#[kani::unwind(18)]
#[kani::stub(core::str::from_utf8, verif_oracle::from_utf8_model)]
fn c13_display() {
    use core::fmt::Write;
    let a = any_name(16);
    let mut sink = Sink { buf: [0; 16], n: 0 };
    let r = write!(sink, "{}", a);
    assert!(r.is_ok(), "C13: Display failed");
    assert!(sink.n == a.length as usize, "C13: Display length differs from the text");
    let mut i = 0;
    while i < 16 {
        if i < sink.n {
            assert!(sink.buf[i] == a.s[i], "C13: Display differs from the text");
        }
        i += 1;
    }
    kani::cover!(a.length == 16, "16-byte name displayed");
}
