// Harnesses and helpers injected as child module `verif_h` of `normalized_string`.
#![allow(dead_code, unused_imports)]
use super::*;

/// An arbitrary value satisfying the representation invariant of `NormalizedString`:
/// 1..=max_len bytes, each printable ASCII and not a lower-case letter, unused bytes zero.
pub(crate) fn any_name(max_len: u8) -> NormalizedString {
    let s: [u8; 16] = kani::any();
    let length: u8 = kani::any();
    kani::assume(length >= 1 && length <= max_len && length <= 16);
    let mut i = 0;
    while i < 16 {
        if (i as u8) < length {
            kani::assume(s[i] >= 0x20 && s[i] <= 0x7E && !(s[i] >= b'a' && s[i] <= b'z'));
        } else {
            kani::assume(s[i] == 0);
        }
        i += 1;
    }
    NormalizedString { s, length }
}

pub(crate) fn name_bytes(n: &NormalizedString) -> ([u8; 16], usize) {
    (n.s, n.length as usize)
}
