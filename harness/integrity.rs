// Harnesses injected as child module `verif_h` of `integrity`.
#![allow(dead_code, unused_imports)]
use super::*;

fn eq20(a: &[u8; 20], b: &[u8; 20]) -> bool {
    let mut eq = true;
    let mut i = 0;
    while i < 20 {
        if a[i] != b[i] {
            eq = false;
        }
        i += 1;
    }
    eq
}

/// C17: every way of distributing a byte string of at most L bytes over the five file arguments gives
/// SHA-1(key | HMAC-SHA1(salt, concatenation)) from all three functions.
fn splits<const L: usize>() {
    let buf: [u8; L] = kani::any();
    let len: usize = kani::any();
    let c1: usize = kani::any();
    let c2: usize = kani::any();
    let c3: usize = kani::any();
    let c4: usize = kani::any();
    kani::assume(c1 <= c2 && c2 <= c3 && c3 <= c4 && c4 <= len && len <= L);
    let salt: [u8; 16] = kani::any();
    let key: [u8; 32] = kani::any();

    // specification: one HMAC keyed by the salt over the whole concatenation, then SHA-1(key | checksum)
    let checksum = verif_oracle::hmac_of(&salt, &[&buf[..len]]);
    let expected = verif_oracle::sha1_of(&[&key, &checksum]);

    let g = login_integrity_check_generic(&buf[..len], &salt, &key);
    assert!(eq20(&g, &expected), "C17: generic result is not SHA-1(key | HMAC(salt, files))");
    let w = login_integrity_check_windows(&buf[..c1], &buf[c1..c2], &buf[c2..c3], &buf[c3..c4], &buf[c4..len], &salt, &key);
    assert!(eq20(&w, &expected), "C17: windows result depends on how the bytes are split over the files");
    let m = login_integrity_check_mac(&buf[..c1], &buf[c1..c2], &buf[c2..c3], &buf[c3..c4], &buf[c4..len], &salt, &key);
    assert!(eq20(&m, &expected), "C17: mac result depends on how the bytes are split over the files");
    kani::cover!(c1 == 0 && c2 == 0 && c3 < c4 && c4 < len, "two empty files followed by non-empty ones");
    kani::cover!(c1 > 0 && c1 == c2 && c2 < c3, "an empty file between non-empty ones");
    kani::cover!(len == 0, "all files empty");
    kani::cover!(len == L && c1 > 0 && c1 < c2 && c2 < c3 && c3 < c4 && c4 < len, "five non-empty files");
}

#[kani::proof]
#[kani::unwind(42)]
fn c17_splits() {
    splits::<8>();
}

#[kani::proof]
#[kani::unwind(42)]
fn c17_splits_24() {
    splits::<24>();
}

/// C17: the reconnect check is SHA-1(salt | 20 zero bytes); the salt generator is a 16-byte draw.
#[kani::proof]
#[kani::unwind(42)]
fn c17_reconnect() {
    let salt: [u8; 16] = kani::any();
    let expected = verif_oracle::sha1_of(&[&salt, &[0u8; 20]]);
    let r = reconnect_integrity_check(&salt);
    assert!(eq20(&r, &expected), "C17: reconnect check is not SHA-1(salt | 20 zero bytes)");
    kani::cover!(true, "reconnect");
}

/// C15: the integrity salt is a fresh 16-byte draw on every call.
#[kani::proof]
#[kani::unwind(42)]
fn c15_integrity_salt() {
    let s1 = get_salt_value();
    assert!(verif_oracle::n_draws() == 1 && verif_oracle::draw_len(0) == 16, "C15: integrity salt is not one fresh 16-byte draw");
    let d = verif_oracle::draw_bytes(0);
    let s2 = get_salt_value();
    assert!(verif_oracle::n_draws() == 2 && verif_oracle::draw_len(1) == 16, "C15: second integrity salt is not a new draw");
    let d2 = verif_oracle::draw_bytes(1);
    let mut i = 0;
    while i < 16 {
        assert!(s1[i] == d[i] && s2[i] == d2[i], "C15: integrity salt bytes are not the drawn bytes");
        i += 1;
    }
    kani::cover!(true, "two salts");
}

/// C17 (large inputs): whatever the total size up to 200 000 bytes and however it is distributed over the
/// five files, each function feeds HMAC exactly the bytes of the buffer, once and in order (span mode of the
/// HMAC model: the pieces handed to `update` are consecutive sub-slices covering the whole buffer).
#[kani::proof]
#[kani::unwind(42)]
fn c17_large_inputs() {
    const MAX: usize = 200_000;
    let len: usize = kani::any();
    let c1: usize = kani::any();
    let c2: usize = kani::any();
    let c3: usize = kani::any();
    let c4: usize = kani::any();
    kani::assume(c1 <= c2 && c2 <= c3 && c3 <= c4 && c4 <= len && len <= MAX);
    let salt: [u8; 16] = kani::any();
    let key: [u8; 32] = kani::any();
    let buf = vec![0u8; len];

    verif_oracle::span_begin(buf.as_ptr());
    let _ = login_integrity_check_generic(&buf, &salt, &key);
    let (ok, total, _) = verif_oracle::span_end();
    assert!(ok && total == len, "C17: the single-buffer function does not hash exactly the whole buffer, in order");

    verif_oracle::span_begin(buf.as_ptr());
    let _ = login_integrity_check_windows(&buf[..c1], &buf[c1..c2], &buf[c2..c3], &buf[c3..c4], &buf[c4..len], &salt, &key);
    let (ok, total, _) = verif_oracle::span_end();
    assert!(ok && total == len, "C17: the windows function does not hash exactly the five files, in order");

    verif_oracle::span_begin(buf.as_ptr());
    let _ = login_integrity_check_mac(&buf[..c1], &buf[c1..c2], &buf[c2..c3], &buf[c3..c4], &buf[c4..len], &salt, &key);
    let (ok, total, _) = verif_oracle::span_end();
    assert!(ok && total == len, "C17: the mac function does not hash exactly the five files, in order");

    kani::cover!(len == 131_072, "total size an exact multiple of 64 KiB");
    kani::cover!(len == 65_537 && c1 == 65_536, "a file of exactly 64 KiB followed by one byte");
    kani::cover!(len == MAX && c1 == 0 && c2 == c3 && c3 > 0, "largest size with empty files");
}
