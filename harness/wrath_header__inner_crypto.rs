// Harnesses and helpers injected as child module `verif_h` of `wrath_header::inner_crypto`.
#![allow(dead_code, unused_imports)]
use super::*;
use crate::rc4::verif_h as rc4h;

/// Kani stub for `InnerCrypto::apply`: keystream as a symbolic one-time pad (see rc4 harness).
pub(crate) fn pad_apply_inner(s: &mut InnerCrypto, data: &mut [u8]) {
    rc4h::pad_apply(&mut s.inner, data);
}

pub(crate) fn any_inner() -> InnerCrypto {
    InnerCrypto { inner: rc4h::any_rc4() }
}

pub(crate) fn any_inner_at(i: u8) -> InnerCrypto {
    InnerCrypto { inner: rc4h::any_rc4_at(i) }
}

pub(crate) fn inner_same(a: &InnerCrypto, b: &InnerCrypto) -> bool {
    rc4h::rc4_same(&a.inner, &b.inner)
}

pub(crate) fn inner_pos(a: &InnerCrypto) -> u8 {
    rc4h::pos(&a.inner)
}

// ---- recording stub for the direction harness (C09) ----
pub(crate) fn stub_inner_new(session_key: [u8; 40], key: &[u8; 16]) -> InnerCrypto {
    verif_oracle::bump(2);
    verif_oracle::ghost_store(2, &session_key);
    verif_oracle::ghost_store(3, key);
    // tag the object with the constant it was built from
    InnerCrypto { inner: rc4h::tagged(key) }
}

pub(crate) fn inner_tag(a: &InnerCrypto) -> [u8; 16] {
    rc4h::tag(&a.inner)
}

const C2S: [u8; 16] = [0xC2, 0xB3, 0x72, 0x3C, 0xC6, 0xAE, 0xD9, 0xB5, 0x34, 0x3C, 0x53, 0xEE, 0x2F, 0x43, 0x67, 0xCE];

/// C09: InnerCrypto::new = RC4 keyed with HMAC-SHA1(direction constant, session key), then exactly one
/// keystream application over 1024 bytes (drop-1024) before first use.
#[kani::proof]
#[kani::unwind(42)]
#[kani::stub(crate::rc4::Rc4::new, rc4h::stub_new)]
#[kani::stub(crate::rc4::Rc4::apply_keystream, rc4h::stub_apply)]
fn c09_wiring() {
    let sk: [u8; 40] = kani::any();
    let dir: [u8; 16] = kani::any();
    let expected = verif_oracle::hmac_of(&dir, &[&sk]);
    let q0 = verif_oracle::n_queries();
    let c = InnerCrypto::new(sk, &dir);
    assert!(verif_oracle::n_queries() == q0 + 1, "C09: not exactly one HMAC computation");
    assert!(verif_oracle::counter(0) == 1, "C09: RC4 not keyed exactly once");
    let (key, klen) = verif_oracle::ghost_load(0);
    assert!(klen == 20, "C09: RC4 key is not the 20-byte digest");
    let mut k = 0;
    while k < 20 {
        assert!(key[k] == expected[k], "C09: RC4 key is not HMAC-SHA1(direction constant, session key)");
        k += 1;
    }
    assert!(verif_oracle::counter(1) >= 1, "C09: no keystream discarded before first use");
    let (l, _) = verif_oracle::ghost_load(1);
    let dropped = u32::from_le_bytes([l[0], l[1], l[2], l[3]]);
    assert!(dropped == 1024, "C09: the discarded prefix is not 1024 bytes");
    assert!(rc4h::is_stub_after_one_apply(&c.inner), "C09: the cipher in use is not the keyed-and-dropped one");
    kani::cover!(sk[39] == 0 && sk[38] == 0, "session key with trailing zero bytes");
    kani::cover!(sk[0] == 0, "session key with a leading zero byte");
}

/// C09: `apply` is the RC4 keystream application (the facade adds nothing).
#[kani::proof]
#[kani::unwind(258)]
fn c09_inner_apply() {
    let c0 = any_inner();
    let data: [u8; 1] = kani::any();
    let mut c = c0.clone();
    let mut a = data;
    c.apply(&mut a);
    let mut r = c0.inner.clone();
    let mut b = data;
    r.apply_keystream(&mut b);
    assert!(a[0] == b[0], "C09: InnerCrypto::apply differs from RC4");
    assert!(rc4h::rc4_same(&c.inner, &r), "C09: InnerCrypto::apply leaves another state than RC4");
    kani::cover!(inner_pos(&c0) == 254, "counter wrap");
}
