// Harnesses injected as child module `verif_h` of `srp_internal`.
#![allow(dead_code, unused_imports, non_snake_case)]
use super::*;
// explicit imports: the harness must not depend on which names the parent module happens to import
#[allow(unused_imports)]
use crate::error::{InvalidPublicKeyError, MatchProofsError};
#[allow(unused_imports)]
use crate::key::{PrivateKey, Proof, PublicKey, ReconnectData, SKey, Salt, SessionKey, Sha1Hash, Verifier};
#[allow(unused_imports)]
use crate::normalized_string::NormalizedString;
#[allow(unused_imports)]
use crate::primes::{Generator, KValue, LargeSafePrime};
use crate::normalized_string::verif_h::{any_name, name_bytes};
use crate::server::verif_h::{eq20, eq32, eq40};
use num_bigint::{BigInt, Sign};

pub(crate) const N_LE: [u8; 32] = [
    0xb7, 0x9b, 0x3e, 0x2a, 0x87, 0x82, 0x3c, 0xab, 0x8f, 0x5e, 0xbf, 0xbf, 0x8e, 0xb1, 0x01, 0x08, 0x53, 0x50, 0x06, 0x29, 0x8b, 0x5b, 0xad, 0xbd, 0x5b,
    0x53, 0xe1, 0x89, 0x5e, 0x64, 0x4b, 0x89,
];
/// SHA1(N) xor SHA1([7]) - independent copy of the constant (checked natively against real SHA-1 in selftest)
pub(crate) const XOR_NG: [u8; 20] = [221, 123, 176, 58, 56, 172, 115, 17, 3, 152, 124, 90, 80, 111, 202, 150, 108, 123, 194, 167];

pub(crate) fn big(b: &[u8]) -> BigInt {
    BigInt::from_bytes_le(Sign::Plus, b)
}
pub(crate) fn big_n() -> BigInt {
    big(&N_LE)
}
/// zero-padded 32-byte little-endian encoding of a non-negative value below 2^256
pub(crate) fn pad32(v: &BigInt) -> [u8; 32] {
    let (_s, bytes) = v.to_bytes_le();
    let mut out = [0u8; 32];
    let mut i = 0;
    while i < 32 {
        if i < bytes.len() {
            out[i] = bytes[i];
        }
        i += 1;
    }
    out
}
pub(crate) fn any_valid_public_key() -> PublicKey {
    let k: [u8; 32] = kani::any();
    match PublicKey::from_le_bytes(k) {
        Ok(p) => p,
        Err(_) => {
            kani::assume(false);
            unreachable!()
        }
    }
}

// ---------------------------------------------------------------------------------------------
// specification terms (through the same uninterpreted functions the code will use)
// ---------------------------------------------------------------------------------------------
pub(crate) fn spec_x(u: &NormalizedString, p: &NormalizedString, salt: &[u8; 32]) -> [u8; 20] {
    let (ub, ul) = name_bytes(u);
    let (pb, pl) = name_bytes(p);
    let inner = verif_oracle::sha1_of(&[&ub[..ul], b":", &pb[..pl]]);
    verif_oracle::sha1_of(&[salt, &inner])
}

/// C03: x = H(salt | H(U ":" P))
#[kani::proof]
#[kani::unwind(42)]
#[kani::stub(core::str::from_utf8, verif_oracle::from_utf8_model)]
fn c03_x() {
    let u = any_name(16);
    let p = any_name(16);
    let salt: [u8; 32] = kani::any();
    let expected = spec_x(&u, &p, &salt);
    let x = calculate_x(&u, &p, &Salt::from_le_bytes(salt));
    assert!(eq20(x.as_le_bytes(), &expected), "C03: x is not H(salt | H(U ':' P))");
    kani::cover!(u.as_ref().len() == 16 && p.as_ref().len() == 16, "longest credentials");
    kani::cover!(u.as_ref().len() == 1 && p.as_ref().len() == 1, "shortest credentials");
}

/// C03: v = 7^x mod N as 32 zero-padded little-endian bytes (x taken as given: its own lemma is c03_x)
#[kani::proof]
#[kani::unwind(66)]
#[kani::stub(core::str::from_utf8, verif_oracle::from_utf8_model)]
#[kani::stub(crate::srp_internal::calculate_x, stub_x)]
fn c03_verifier() {
    let u = any_name(16);
    let p = any_name(16);
    let salt: [u8; 32] = kani::any();
    let x = stub_x(&u, &p, &Salt::from_le_bytes(salt));
    let v = BigInt::from(7u8).modpow(&big(x.as_le_bytes()), &big_n());
    let expected = pad32(&v);
    let got = calculate_password_verifier(&u, &p, &Salt::from_le_bytes(salt));
    assert!(eq32(&got, &expected), "C03: verifier is not 7^x mod N, zero-padded little-endian");
    assert!(verif_oracle::counter(10) == 2, "harness: calculate_x not called exactly once by the code");
    kani::cover!(expected[31] == 0 && expected[30] == 0 && expected[29] != 0, "verifier with two high zero bytes");
    kani::cover!(expected[0] == 0 && expected[31] != 0, "verifier with a low zero byte");
}

/// C03: B = (3*v + 7^b) mod N
#[kani::proof]
#[kani::unwind(66)]
fn c03_b_server() {
    let v: [u8; 32] = kani::any();
    let b: [u8; 32] = kani::any();
    let val = (BigInt::from(3u8) * big(&v) + BigInt::from(7u8).modpow(&big(&b), &big_n())) % big_n();
    let expected = pad32(&val);
    match calculate_server_public_key(&Verifier::from_le_bytes(v), &PrivateKey::from_le_bytes(b)) {
        Ok(k) => {
            assert!(eq32(k.as_le_bytes(), &expected), "C03: B is not (3*v + 7^b) mod N");
            kani::cover!(expected[31] == 0, "B with a high zero byte");
        }
        Err(_) => {
            // only a value congruent to zero may be refused
            assert!(val.is_zero_model(), "C03: a non-zero B was refused");
            kani::cover!(true, "B = 0 refused");
        }
    }
}

/// C03: u = H(A | B)
#[kani::proof]
#[kani::unwind(42)]
fn c03_u() {
    let a = any_valid_public_key();
    let b = any_valid_public_key();
    let expected = verif_oracle::sha1_of(&[a.as_le_bytes(), b.as_le_bytes()]);
    let u = calculate_u(&a, &b);
    assert!(eq20(u.as_le_bytes(), &expected), "C03: u is not H(A | B)");
    kani::cover!(true, "u");
}

/// C03/C14: server S = (A * v^u)^b mod N, zero padded; every value below N incl. many zero bytes.
#[kani::proof]
#[kani::unwind(66)]
fn c03_s_server() {
    let a = any_valid_public_key();
    let v: [u8; 32] = kani::any();
    let u: [u8; 20] = kani::any();
    let b: [u8; 32] = kani::any();
    let val = (big(a.as_le_bytes()) * big(&v).modpow(&big(&u), &big_n())).modpow(&big(&b), &big_n());
    let expected = pad32(&val);
    let s = calculate_S(&a, &Verifier::from_le_bytes(v), &Sha1Hash::from_le_bytes(u), &PrivateKey::from_le_bytes(b));
    assert!(eq32(s.as_le_bytes(), &expected), "C03: server S is not (A * v^u)^b mod N, zero-padded");
    kani::cover!(expected[31] == 0 && expected[30] == 0 && expected[29] == 0, "S with three high zero bytes");
    kani::cover!(val.is_zero_model(), "S = 0 (model: any value below N)");
}

/// the RFC 2945 interleave over the little-endian secret, as a specification
pub(crate) fn spec_interleave(s: &[u8; 32]) -> [u8; 40] {
    let mut lead = 0usize;
    let mut stop = false;
    let mut i = 0;
    while i < 32 {
        if !stop {
            if s[i] == 0 {
                lead += 1;
            } else {
                stop = true;
            }
        }
        i += 1;
    }
    if lead % 2 != 0 {
        lead += 1;
    }
    let half = (32 - lead) / 2;
    let mut e = [0u8; 16];
    let mut f = [0u8; 16];
    let mut i = 0;
    while i < 16 {
        if i < half {
            e[i] = s[lead + 2 * i];
            f[i] = s[lead + 2 * i + 1];
        }
        i += 1;
    }
    let g = verif_oracle::sha1_of(&[&e[..half]]);
    let h = verif_oracle::sha1_of(&[&f[..half]]);
    let mut k = [0u8; 40];
    let mut i = 0;
    while i < 20 {
        k[2 * i] = g[i];
        k[2 * i + 1] = h[i];
        i += 1;
    }
    k
}

fn low_zeros(s: &[u8; 32]) -> usize {
    let mut lead = 0usize;
    let mut stop = false;
    let mut i = 0;
    while i < 32 {
        if !stop {
            if s[i] == 0 {
                lead += 1;
            } else {
                stop = true;
            }
        }
        i += 1;
    }
    lead
}

/// C03: K = SHA_Interleave(S) for every S != 0, every count of low-order zero bytes.
#[kani::proof]
#[kani::unwind(42)]
fn c03_interleave() {
    let s: [u8; 32] = kani::any();
    let z = low_zeros(&s);
    kani::assume(z < 32);
    let expected = spec_interleave(&s);
    let k = calculate_interleaved(&SKey::from_le_bytes(s));
    assert!(eq40(k.as_le_bytes(), &expected), "C03: session key is not the interleaved hash of S with leading zeros removed");
    kani::cover!(z == 0, "no zero byte");
    kani::cover!(z == 1, "one low zero byte");
    kani::cover!(z == 2, "two low zero bytes");
    kani::cover!(z == 3, "three low zero bytes");
    kani::cover!(z == 30, "thirty low zero bytes");
    kani::cover!(z == 31, "thirty-one low zero bytes");
    kani::cover!(z == 1 && s[2] == 0, "pattern 00 xx 00");
}

/// C14: the interleave must not panic for ANY 32-byte secret (the client's S is chosen by the peer), incl. S = 0.
#[kani::proof]
#[kani::unwind(42)]
fn c14_interleave_total() {
    let s: [u8; 32] = kani::any();
    let k = calculate_interleaved(&SKey::from_le_bytes(s));
    let _ = k.as_le_bytes()[0];
    kani::cover!(low_zeros(&s) == 32, "S = 0");
    kani::cover!(low_zeros(&s) == 31, "S with 31 low zero bytes");
}

fn spec_m1(xor: &[u8; 20], name: &NormalizedString, k: &[u8; 40], a: &[u8; 32], b: &[u8; 32], salt: &[u8; 32]) -> [u8; 20] {
    let (nb, nl) = name_bytes(name);
    let uh = verif_oracle::sha1_of(&[&nb[..nl]]);
    verif_oracle::sha1_of(&[xor, &uh, salt, a, b, k])
}

/// C03: M1 = H(H(N) xor H(g) | H(U) | salt | A | B | K) with the built-in group
#[kani::proof]
#[kani::unwind(42)]
#[kani::stub(core::str::from_utf8, verif_oracle::from_utf8_model)]
fn c03_m1_builtin() {
    let name = any_name(16);
    let k: [u8; 40] = kani::any();
    let a = any_valid_public_key();
    let b = any_valid_public_key();
    let salt: [u8; 32] = kani::any();
    let expected = spec_m1(&XOR_NG, &name, &k, a.as_le_bytes(), b.as_le_bytes(), &salt);
    let m1 = calculate_client_proof(&name, &SessionKey::from_le_bytes(k), &a, &b, &Salt::from_le_bytes(salt));
    assert!(eq20(m1.as_le_bytes(), &expected), "C03: M1 is not H(H(N)^H(g) | H(U) | salt | A | B | K)");
    kani::cover!(name.as_ref().len() == 16, "16-byte name");
}

/// C03: M2 = H(A | M1 | K)
#[kani::proof]
#[kani::unwind(42)]
fn c03_m2() {
    let a = any_valid_public_key();
    let m1: [u8; 20] = kani::any();
    let k: [u8; 40] = kani::any();
    let expected = verif_oracle::sha1_of(&[a.as_le_bytes(), &m1, &k]);
    let m2 = calculate_server_proof(&a, &Proof::from_le_bytes(m1), &SessionKey::from_le_bytes(k));
    assert!(eq20(m2.as_le_bytes(), &expected), "C03: M2 is not H(A | M1 | K)");
    kani::cover!(true, "m2");
}

/// C03: H(N') xor H(g) for any announced group
#[kani::proof]
#[kani::unwind(42)]
fn c03_xor_custom() {
    let n: [u8; 32] = kani::any();
    let g: u8 = kani::any();
    let hn = verif_oracle::sha1_of(&[&n]);
    let hg = verif_oracle::sha1_of(&[&[g]]);
    let x = calculate_xor_hash(&LargeSafePrime::from_le_bytes(n), &Generator::from(g));
    let mut i = 0;
    while i < 20 {
        assert!(x.as_le_bytes()[i] == hn[i] ^ hg[i], "C03: xor hash is not H(N) xor H(g) for the announced group");
        i += 1;
    }
    kani::cover!(eq32(&n, &N_LE) && g != 7, "built-in prime with another generator");
    kani::cover!(eq32(&n, &N_LE) && g == 7, "built-in group");
}

/// C03: K = interleave(S(A, v, u(A,B), b)) - composition inside calculate_session_key
#[kani::proof]
#[kani::unwind(42)]
#[kani::stub(crate::srp_internal::calculate_u, stub_u)]
#[kani::stub(crate::srp_internal::calculate_S, stub_S)]
#[kani::stub(crate::srp_internal::calculate_interleaved, stub_interleaved)]
fn c03_session_key() {
    let a = any_valid_public_key();
    let b = any_valid_public_key();
    let v: [u8; 32] = kani::any();
    let pk: [u8; 32] = kani::any();
    let u = stub_u(&a, &b);
    let s = stub_S(&a, &Verifier::from_le_bytes(v), &u, &PrivateKey::from_le_bytes(pk));
    let expected = stub_interleaved(&s);
    let k = calculate_session_key(&a, &b, &Verifier::from_le_bytes(v), &PrivateKey::from_le_bytes(pk));
    assert!(eq40(k.as_le_bytes(), expected.as_le_bytes()), "C03: session key is not interleave(S(A, v, H(A|B), b))");
    assert!(verif_oracle::counter(11) == 2 && verif_oracle::counter(12) == 2 && verif_oracle::counter(13) == 2, "harness: a callee of calculate_session_key was not called exactly once");
    kani::cover!(true, "session key");
}

// ---------------------------------------------------------------------------------------------
// uninterpreted stubs of this module's functions, for the harnesses of their callers
// (each stub's own specification is the c03_* harness of the real function)
// ---------------------------------------------------------------------------------------------
fn out20(o: &[u8; 40]) -> [u8; 20] {
    let mut r = [0u8; 20];
    let mut i = 0;
    while i < 20 {
        r[i] = o[i];
        i += 1;
    }
    r
}
fn out32(o: &[u8; 40]) -> [u8; 32] {
    let mut r = [0u8; 32];
    let mut i = 0;
    while i < 32 {
        r[i] = o[i];
        i += 1;
    }
    r
}

pub(crate) fn stub_x(u: &NormalizedString, p: &NormalizedString, salt: &Salt) -> Sha1Hash {
    verif_oracle::bump(10);
    let (ub, ul) = name_bytes(u);
    let (pb, pl) = name_bytes(p);
    // fixed-width encoding: 16 zero-padded bytes + length for each name
    let o = verif_oracle::uf(verif_oracle::USER + 10, &[salt.as_le_bytes(), &ub, &[ul as u8], &pb, &[pl as u8]]);
    Sha1Hash::from_le_bytes(out20(&o))
}
pub(crate) fn stub_u(a: &PublicKey, b: &PublicKey) -> Sha1Hash {
    verif_oracle::bump(11);
    let o = verif_oracle::uf(verif_oracle::USER + 11, &[a.as_le_bytes(), b.as_le_bytes()]);
    Sha1Hash::from_le_bytes(out20(&o))
}
pub(crate) fn stub_S(a: &PublicKey, v: &Verifier, u: &Sha1Hash, b: &PrivateKey) -> SKey {
    verif_oracle::bump(12);
    let o = verif_oracle::uf(verif_oracle::USER + 12, &[a.as_le_bytes(), v.as_le_bytes(), u.as_le_bytes(), b.as_le_bytes()]);
    SKey::from_le_bytes(out32(&o))
}
pub(crate) fn stub_interleaved(s: &SKey) -> SessionKey {
    verif_oracle::bump(13);
    let o = verif_oracle::uf(verif_oracle::USER + 13, &[s.as_le_bytes()]);
    SessionKey::from_le_bytes(o)
}
pub(crate) fn stub_session_key(a: &PublicKey, b: &PublicKey, v: &Verifier, pk: &PrivateKey) -> SessionKey {
    verif_oracle::bump(14);
    let o = verif_oracle::uf(verif_oracle::USER + 14, &[a.as_le_bytes(), b.as_le_bytes(), v.as_le_bytes(), pk.as_le_bytes()]);
    SessionKey::from_le_bytes(o)
}
pub(crate) fn stub_client_proof(name: &NormalizedString, k: &SessionKey, a: &PublicKey, b: &PublicKey, salt: &Salt) -> Proof {
    verif_oracle::bump(15);
    let (nb, nl) = name_bytes(name);
    let o = verif_oracle::uf(verif_oracle::USER + 15, &[k.as_le_bytes(), a.as_le_bytes(), b.as_le_bytes(), salt.as_le_bytes(), &nb, &[nl as u8]]);
    Proof::from_le_bytes(out20(&o))
}
pub(crate) fn stub_server_proof(a: &PublicKey, m1: &Proof, k: &SessionKey) -> Proof {
    verif_oracle::bump(9);
    let o = verif_oracle::uf(verif_oracle::USER + 9, &[a.as_le_bytes(), m1.as_le_bytes(), k.as_le_bytes()]);
    Proof::from_le_bytes(out20(&o))
}
pub(crate) fn stub_verifier(u: &NormalizedString, p: &NormalizedString, salt: &Salt) -> [u8; 32] {
    verif_oracle::bump(8);
    let (ub, ul) = name_bytes(u);
    let (pb, pl) = name_bytes(p);
    let o = verif_oracle::uf(verif_oracle::USER + 8, &[salt.as_le_bytes(), &ub, &[ul as u8], &pb, &[pl as u8]]);
    out32(&o)
}
/// B as an uninterpreted function of (v, b); the documented "generated key is invalid" case is excluded
pub(crate) fn stub_server_public_key(v: &Verifier, b: &PrivateKey) -> Result<PublicKey, InvalidPublicKeyError> {
    verif_oracle::bump(7);
    verif_oracle::ghost_store(7, b.as_le_bytes());
    let o = verif_oracle::uf(verif_oracle::USER + 7, &[v.as_le_bytes(), b.as_le_bytes()]);
    match PublicKey::from_le_bytes(out32(&o)) {
        Ok(k) => Ok(k),
        Err(_) => {
            kani::assume(false);
            unreachable!()
        }
    }
}

/// C01/C03: on the server the path from the shared secret to the session key is
/// K = SHA_Interleave(32-byte zero-padded little-endian S), S = (A * v^u)^b mod N — real S, real interleave
/// (only u is uninterpreted).
#[kani::proof]
#[kani::unwind(66)]
#[kani::stub(crate::srp_internal::calculate_u, stub_u)]
fn c01_server_s_to_k() {
    let a = any_valid_public_key();
    let b = any_valid_public_key();
    let v: [u8; 32] = kani::any();
    let pk: [u8; 32] = kani::any();
    let k = calculate_session_key(&a, &b, &Verifier::from_le_bytes(v), &PrivateKey::from_le_bytes(pk));
    let u = stub_u(&a, &b);
    let val = (big(a.as_le_bytes()) * big(&v).modpow(&big(u.as_le_bytes()), &big_n())).modpow(&big(&pk), &big_n());
    let s = pad32(&val);
    if low_zeros(&s) < 32 {
        let expected = spec_interleave(&s);
        assert!(eq40(k.as_le_bytes(), &expected), "C01: server session key is not SHA_Interleave of the zero-padded 32-byte secret");
    }
    kani::cover!(low_zeros(&s) < 32 && s[31] == 0 && s[30] == 0 && s[29] != 0, "secret with two high zero bytes");
    kani::cover!(low_zeros(&s) == 1, "secret with one low zero byte");
}
