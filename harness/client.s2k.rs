// Self-contained harness injected as child module `verif_s2k` of `client` (depends only on the
// normalized_string helpers): the client's path from the shared secret to the session key, with the real
// S computation and the real interleave, whatever internal functions `SrpClientChallenge::new` uses for it.
#![allow(dead_code, unused_imports, non_snake_case)]
use crate::client::SrpClientChallenge;
use crate::error::InvalidPublicKeyError;
use crate::key::{PrivateKey, Proof, PublicKey, Salt, SessionKey, Sha1Hash};
use crate::normalized_string::verif_h::{any_name, name_bytes};
use crate::normalized_string::NormalizedString;
use crate::primes::{Generator, LargeSafePrime};
use num_bigint::{BigInt, Sign};

fn big(b: &[u8]) -> BigInt {
    BigInt::from_bytes_le(Sign::Plus, b)
}
fn pad32(v: &BigInt) -> [u8; 32] {
    let (_s, bytes) = v.to_bytes_le();
    let mut out = [0u8; 32];
    let mut i = 0;
    while i < 32 {
        if i < bytes.len() {
            out[i] = bytes[i];
        }
        i += 1;
    }
    out
}
fn out20(o: &[u8; 40]) -> [u8; 20] {
    let mut r = [0u8; 20];
    let mut i = 0;
    while i < 20 {
        r[i] = o[i];
        i += 1;
    }
    r
}
fn out32(o: &[u8; 40]) -> [u8; 32] {
    let mut r = [0u8; 32];
    let mut i = 0;
    while i < 32 {
        r[i] = o[i];
        i += 1;
    }
    r
}
fn stub_x(u: &NormalizedString, p: &NormalizedString, salt: &Salt) -> Sha1Hash {
    verif_oracle::bump(10);
    let (ub, ul) = name_bytes(u);
    let (pb, pl) = name_bytes(p);
    let o = verif_oracle::uf(verif_oracle::USER + 10, &[salt.as_le_bytes(), &ub, &[ul as u8], &pb, &[pl as u8]]);
    Sha1Hash::from_le_bytes(out20(&o))
}
fn stub_u(a: &PublicKey, b: &PublicKey) -> Sha1Hash {
    verif_oracle::bump(11);
    let o = verif_oracle::uf(verif_oracle::USER + 11, &[a.as_le_bytes(), b.as_le_bytes()]);
    Sha1Hash::from_le_bytes(out20(&o))
}
fn stub_client_public_key(a: &PrivateKey, g: &Generator, n: &LargeSafePrime) -> Result<PublicKey, InvalidPublicKeyError> {
    verif_oracle::bump(6);
    let o = verif_oracle::uf(verif_oracle::USER + 6, &[a.as_le_bytes(), &[g.as_u8()], n.as_le_bytes()]);
    match PublicKey::from_le_bytes(out32(&o)) {
        Ok(k) => Ok(k),
        Err(_) => {
            kani::assume(false);
            unreachable!()
        }
    }
}
fn stub_client_proof_custom(name: &NormalizedString, k: &SessionKey, a: &PublicKey, b: &PublicKey, salt: &Salt, n: LargeSafePrime, g: Generator) -> Proof {
    verif_oracle::bump(4);
    let (nb, nl) = name_bytes(name);
    let o = verif_oracle::uf(
        verif_oracle::USER + 4,
        &[k.as_le_bytes(), a.as_le_bytes(), b.as_le_bytes(), salt.as_le_bytes(), n.as_le_bytes(), &[g.as_u8()], &nb, &[nl as u8]],
    );
    Proof::from_le_bytes(out20(&o))
}

/// the RFC 2945 interleave over the little-endian secret, as a specification
fn spec_interleave(s: &[u8; 32]) -> [u8; 40] {
    let mut lead = 0usize;
    let mut stop = false;
    let mut i = 0;
    while i < 32 {
        if !stop {
            if s[i] == 0 {
                lead += 1;
            } else {
                stop = true;
            }
        }
        i += 1;
    }
    if lead % 2 != 0 {
        lead += 1;
    }
    let half = (32 - lead) / 2;
    let mut e = [0u8; 16];
    let mut f = [0u8; 16];
    let mut i = 0;
    while i < 16 {
        if i < half {
            e[i] = s[lead + 2 * i];
            f[i] = s[lead + 2 * i + 1];
        }
        i += 1;
    }
    let g = verif_oracle::sha1_of(&[&e[..half]]);
    let h = verif_oracle::sha1_of(&[&f[..half]]);
    let mut k = [0u8; 40];
    let mut i = 0;
    while i < 20 {
        k[2 * i] = g[i];
        k[2 * i + 1] = h[i];
        i += 1;
    }
    k
}

/// C01/C03: client K == SHA_Interleave(pad32((B - 3*g^x)^(a + u*x) mod N')) for every non-zero S.
#[kani::proof]
#[kani::unwind(66)]
#[kani::stub(core::str::from_utf8, verif_oracle::from_utf8_model)]
#[kani::stub(crate::srp_internal_client::calculate_client_public_key, stub_client_public_key)]
#[kani::stub(crate::srp_internal::calculate_x, stub_x)]
#[kani::stub(crate::srp_internal::calculate_u, stub_u)]
#[kani::stub(crate::srp_internal_client::calculate_client_proof_with_custom_value, stub_client_proof_custom)]
fn c01_client_s_to_k() {
    let name = any_name(4);
    let pw = any_name(4);
    let g: u8 = kani::any();
    let n: [u8; 32] = kani::any();
    let mut nz = false;
    let mut i = 0;
    while i < 32 {
        if n[i] != 0 {
            nz = true;
        }
        i += 1;
    }
    kani::assume(nz);
    let bb: [u8; 32] = kani::any();
    let b_pub = match PublicKey::from_le_bytes(bb) {
        Ok(p) => p,
        Err(_) => {
            kani::assume(false);
            unreachable!()
        }
    };
    let salt: [u8; 32] = kani::any();
    let ch = SrpClientChallenge::new(name.clone(), pw.clone(), g, n, b_pub, salt);
    let a = verif_oracle::draw_bytes(0);
    // specification
    let a_pub = match stub_client_public_key(&PrivateKey::from_le_bytes(a), &Generator::from(g), &LargeSafePrime::from_le_bytes(n)) {
        Ok(k) => k,
        Err(_) => unreachable!(),
    };
    let x = stub_x(&name, &pw, &Salt::from_le_bytes(salt));
    let u = stub_u(&a_pub, &b_pub);
    let base = big(b_pub.as_le_bytes()) - BigInt::from(3u8) * BigInt::from(g).modpow(&big(x.as_le_bytes()), &big(&n));
    let exp = big(&a) + big(u.as_le_bytes()) * big(x.as_le_bytes());
    let s = pad32(&base.modpow(&exp, &big(&n)));
    let mut zero = true;
    let mut i = 0;
    while i < 32 {
        if s[i] != 0 {
            zero = false;
        }
        i += 1;
    }
    if !zero {
        let k = spec_interleave(&s);
        let got = *ch.session_key.as_le_bytes(); // private field, visible to this child module of `client`
        let mut eq = true;
        let mut i = 0;
        while i < 40 {
            if got[i] != k[i] {
                eq = false;
            }
            i += 1;
        }
        assert!(eq, "C01: client session key is not SHA_Interleave of the zero-padded 32-byte secret");
    }
    kani::cover!(!zero && s[31] == 0 && s[30] == 0 && s[29] != 0, "secret with two high zero bytes");
    kani::cover!(!zero && s[0] == 0 && s[1] != 0, "secret with one low zero byte");
}
