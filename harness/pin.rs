// Harnesses injected as child module `verif_h` of `pin`.
#![allow(dead_code, unused_imports)]
use super::*;

const FACT10: u32 = 3_628_800;

fn is_perm(g: &[u8; 10]) -> bool {
    let mut seen = [false; 10];
    let mut ok = true;
    let mut i = 0;
    while i < 10 {
        if g[i] > 9 {
            ok = false;
        } else {
            if seen[g[i] as usize] {
                ok = false;
            }
            seen[g[i] as usize] = true;
        }
        i += 1;
    }
    ok
}

/// factorial-base (Lehmer) decode from explicit digits d[k] < 10-k
fn lehmer_from_digits(d: &[u8; 10]) -> [u8; 10] {
    let mut avail = [0u8, 1, 2, 3, 4, 5, 6, 7, 8, 9];
    let mut out = [0u8; 10];
    let mut k = 0;
    while k < 10 {
        let r = d[k] as usize;
        out[k] = avail[r];
        let mut m = r;
        while m + 1 < 10 - k {
            avail[m] = avail[m + 1];
            m += 1;
        }
        k += 1;
    }
    out
}

fn grid_eq(a: &[u8; 10], b: &[u8; 10]) -> bool {
    let mut eq = true;
    let mut i = 0;
    while i < 10 {
        if a[i] != b[i] {
            eq = false;
        }
        i += 1;
    }
    eq
}

/// C16: the layout is a permutation of 0..9 for every u32 seed.
#[kani::proof]
#[kani::unwind(12)]
fn c16_remap_perm() {
    let seed: u32 = kani::any();
    let g = remap_pin_grid(seed);
    assert!(is_perm(&g), "C16: keypad layout is not a permutation of 0..9");
    kani::cover!(seed >= 0xFFFF_0000, "large seed");
}

/// C16: for every seed written as q*10! + (d0 + 10*(d1 + 9*(d2 + ...))) the layout is the factorial-base
/// decode of (d0..d9), independent of q: the layout is determined by seed mod 10!.
fn remap_mixed_radix(qmin: u32, qmax: u32) {
    let d: [u8; 10] = kani::any();
    let q: u32 = kani::any();
    kani::assume(q >= qmin && q <= qmax);
    let mut k = 0;
    while k < 10 {
        kani::assume((d[k] as usize) < 10 - k);
        k += 1;
    }
    // value of the mixed-radix numeral
    let mut r: u32 = 0;
    let mut k = 10;
    while k > 0 {
        k -= 1;
        r = r * (10 - k as u32) + d[k] as u32;
    }
    kani::assume(q < 1183 || r <= u32::MAX - 1183 * FACT10);
    let seed = q * FACT10 + r;
    let g = remap_pin_grid(seed);
    let e = lehmer_from_digits(&d);
    assert!(grid_eq(&g, &e), "C16: keypad layout is not the factorial-base decode of seed mod 10!");
    kani::cover!(q == qmax, "largest quotient");
    kani::cover!(d[0] == 9 && d[1] == 8 && d[8] == 1, "largest digits");
}

/// quick: seeds below 10! (every residue), i.e. q = 0
#[kani::proof]
#[kani::unwind(12)]
fn c16_remap_lehmer() {
    remap_mixed_radix(0, 0);
}

/// thorough: every u32 seed (q <= 1183)
#[kani::proof]
#[kani::unwind(12)]
fn c16_remap_periodic() {
    remap_mixed_radix(1, 1183);
}

/// thorough: two concrete quotients (seed = 10! + r and seed = 1183 * 10! + r)
#[kani::proof]
#[kani::unwind(12)]
fn c16_remap_periodic_q() {
    remap_mixed_radix(1, 1);
    remap_mixed_radix(1183, 1183);
}

/// C16: digit extraction is the decimal expansion (most significant first), for every u32.
#[kani::proof]
#[kani::unwind(12)]
fn c16_digits() {
    let pin: u32 = kani::any();
    let mut arr = [0u8; 10];
    let n;
    let mut digits = [0u8; 10];
    {
        let b = pin_to_bytes(pin, &mut arr);
        n = b.len();
        let mut i = 0;
        while i < 10 {
            if i < n {
                digits[i] = b[i];
            }
            i += 1;
        }
    }
    assert!(n <= 10, "C16: more than ten digits");
    // decimal expansion, stated recursively: the last digit is pin % 10, the digits before it are the
    // expansion of pin / 10; the expansion of 0 is empty
    let mut q = pin;
    let mut i = 0;
    while i < 10 {
        if i < n {
            assert!(digits[n - 1 - i] as u32 == q % 10, "C16: digits are not the decimal expansion of the PIN");
            q /= 10;
        }
        i += 1;
    }
    assert!(q == 0, "C16: the PIN has more digits than were extracted");
    assert!(n == 0 || digits[0] != 0, "C16: leading zero digit");
    assert!((n == 0) == (pin == 0), "C16: digit count of zero");
    kani::cover!(n == 10, "ten digits");
    kani::cover!(pin == 9_999_999, "seven nines");
    kani::cover!(n == 4, "four digits");
}

fn eq20(a: &[u8; 20], b: &[u8; 20]) -> bool {
    let mut eq = true;
    let mut i = 0;
    while i < 20 {
        if a[i] != b[i] {
            eq = false;
        }
        i += 1;
    }
    eq
}

// ---- uninterpreted stubs of the two leaves (their own lemmas: c16_remap_*, c16_digits) ----
fn stub_grid(seed: u32) -> [u8; 10] {
    verif_oracle::bump(0);
    let o = verif_oracle::uf(verif_oracle::USER + 70, &[&seed.to_le_bytes()]);
    let mut g = [0u8; 10];
    let mut i = 0;
    while i < 10 {
        g[i] = o[i];
        i += 1;
    }
    kani::assume(is_perm(&g)); // c16_remap_perm
    g
}

fn stub_digits<'a>(pin: u32, out: &'a mut [u8; 10]) -> &'a mut [u8] {
    verif_oracle::bump(1);
    let o = verif_oracle::uf(verif_oracle::USER + 71, &[&pin.to_le_bytes()]);
    let n = o[10] as usize;
    // consequences of c16_digits: at most ten decimal digits, four or more exactly from 1000 on
    kani::assume(n <= 10 && (n >= 4) == (pin >= 1000) && (n == 0) == (pin == 0));
    let mut i = 0;
    while i < 10 {
        if i < n {
            kani::assume(o[i] <= 9);
            out[i] = o[i];
        }
        i += 1;
    }
    &mut out[0..n]
}

/// C16: the hash is SHA-1(client salt | SHA-1(server salt | remapped digits as ASCII)); none below 1000.
/// The layout and the digits are uninterpreted here (lemmas c16_remap_* and c16_digits).
#[kani::proof]
#[kani::unwind(22)]
#[kani::stub(crate::pin::remap_pin_grid, stub_grid)]
#[kani::stub(crate::pin::pin_to_bytes, stub_digits)]
fn c16_hash_msg() {
    let pin: u32 = kani::any();
    let seed: u32 = kani::any();
    let ss: [u8; 16] = kani::any();
    let cs: [u8; 16] = kani::any();
    // specification
    let grid = stub_grid(seed);
    let mut arr = [0u8; 10];
    let mut ascii = [0u8; 10];
    let n;
    {
        let b = stub_digits(pin, &mut arr);
        n = b.len();
        let mut i = 0;
        while i < 10 {
            if i < n {
                // position of the digit in the layout
                let mut pos = 0u8;
                let mut k = 0;
                while k < 10 {
                    if grid[k] == b[i] {
                        pos = k as u8;
                    }
                    k += 1;
                }
                ascii[i] = pos + 0x30;
            }
            i += 1;
        }
    }
    let has = pin >= 1000;
    let r = calculate_hash(pin, seed, &ss, &cs);
    assert!(verif_oracle::counter(0) == (if has { 2 } else { 1 }) && verif_oracle::counter(1) == 2, "harness: layout / digit extraction not called as expected");
    match r {
        None => {
            assert!(!has, "C16: no hash for a PIN of four or more digits");
            kani::cover!(pin == 999, "999 has no hash");
        }
        Some(h) => {
            assert!(has, "C16: hash for a PIN below 1000");
            let inner = verif_oracle::sha1_of(&[&ss, &ascii[..n]]);
            let expected = verif_oracle::sha1_of(&[&cs, &inner]);
            assert!(eq20(&h, &expected), "C16: hash is not SHA-1(client salt | SHA-1(server salt | remapped digits))");
            kani::cover!(pin == 1000, "1000 has a hash");
            kani::cover!(n == 10, "ten-digit PIN");
        }
    }
}

fn stub_hash(pin: u32, seed: u32, ss: &[u8; 16], cs: &[u8; 16]) -> Option<[u8; 20]> {
    verif_oracle::bump(2);
    let o = verif_oracle::uf(verif_oracle::USER + 72, &[&pin.to_le_bytes(), &seed.to_le_bytes(), ss, cs]);
    if o[20] & 1 == 0 {
        None
    } else {
        let mut h = [0u8; 20];
        let mut i = 0;
        while i < 20 {
            h[i] = o[i];
            i += 1;
        }
        Some(h)
    }
}

/// C16: verification is true exactly when a hash exists and equals the presented one (160 bits).
/// `calculate_hash` is uninterpreted here (lemma c16_hash_msg).
#[kani::proof]
#[kani::unwind(22)]
#[kani::stub(crate::pin::calculate_hash, stub_hash)]
fn c16_verify() {
    let pin: u32 = kani::any();
    let seed: u32 = kani::any();
    let ss: [u8; 16] = kani::any();
    let cs: [u8; 16] = kani::any();
    let presented: [u8; 20] = kani::any();
    let h = stub_hash(pin, seed, &ss, &cs);
    let v = verify_client_pin_hash(pin, seed, &ss, &cs, &presented);
    assert!(verif_oracle::counter(2) == 2, "harness: calculate_hash not called exactly once");
    match h {
        None => assert!(!v, "C16: verification succeeded although no hash exists"),
        Some(e) => {
            assert!(v == eq20(&e, &presented), "C16: verification is not equality with the hash over all 160 bits");
            let mut diff = 0u32;
            let mut i = 0;
            while i < 20 {
                diff += (presented[i] ^ e[i]).count_ones();
                i += 1;
            }
            kani::cover!(diff == 1 && presented[19] != e[19], "single-bit change in the last byte");
            kani::cover!(v, "accepted");
        }
    }
    kani::cover!(h.is_none(), "no hash");
}

/// C15: PIN salt and grid seed are fresh draws of full width on every call.
#[kani::proof]
#[kani::unwind(22)]
fn c15_pin_generators() {
    let s1 = get_pin_salt();
    assert!(verif_oracle::n_draws() == 1 && verif_oracle::draw_len(0) == 16, "C15: PIN salt is not one fresh 16-byte draw");
    let d = verif_oracle::draw_bytes(0);
    let mut i = 0;
    while i < 16 {
        assert!(s1[i] == d[i], "C15: PIN salt bytes are not the drawn bytes");
        i += 1;
    }
    let g1 = get_pin_grid_seed();
    assert!(verif_oracle::n_draws() == 2 && verif_oracle::draw_len(1) == 4, "C15: grid seed is not one fresh 4-byte draw");
    let d = verif_oracle::draw_bytes(1);
    assert!(g1 == u32::from_le_bytes([d[0], d[1], d[2], d[3]]), "C15: grid seed is not the drawn value");
    let g2 = get_pin_grid_seed();
    let s2 = get_pin_salt();
    assert!(verif_oracle::n_draws() == 4 && verif_oracle::draw_len(2) == 4 && verif_oracle::draw_len(3) == 16, "C15: repeated calls do not draw again");
    let d = verif_oracle::draw_bytes(2);
    assert!(g2 == u32::from_le_bytes([d[0], d[1], d[2], d[3]]), "C15: second grid seed is not the second draw");
    let d = verif_oracle::draw_bytes(3);
    let mut i = 0;
    while i < 16 {
        assert!(s2[i] == d[i], "C15: second PIN salt is not the new draw");
        i += 1;
    }
    kani::cover!(true, "generators");
}
