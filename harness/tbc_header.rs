// Harnesses injected as child module `verif_h` of `tbc_header`.
#![allow(dead_code, unused_imports)]
use super::*;

const KL: usize = 20;

fn any_state() -> ([u8; KL], u8, u8) {
    let key: [u8; KL] = kani::any();
    let index: u8 = kani::any();
    let prev: u8 = kani::any();
    kani::assume((index as usize) < KL);
    (key, index, prev)
}

fn key_eq(a: &[u8; KL], b: &[u8; KL]) -> bool {
    let mut eq = true;
    let mut i = 0;
    while i < KL {
        if a[i] != b[i] {
            eq = false;
        }
        i += 1;
    }
    eq
}

/// C08: one byte from every state follows the recurrence; decrypt is its inverse.
#[kani::proof]
#[kani::unwind(22)]
fn c08_step() {
    let (key, index, prev) = any_state();
    let x: u8 = kani::any();
    let mut e = EncrypterHalf { key, index, previous_value: prev };
    let mut buf = [x];
    e.encrypt(&mut buf);
    let c = (x ^ key[index as usize]).wrapping_add(prev);
    let ni = ((index as usize + 1) % KL) as u8;
    assert!(buf[0] == c, "C08: encrypt byte differs from recurrence");
    assert!(e.index == ni && e.previous_value == c, "C08: encrypt next state wrong");
    assert!(key_eq(&e.key, &key), "C08: encrypt changed the key");
    assert!((e.index as usize) < KL);

    let y: u8 = kani::any();
    let mut d = DecrypterHalf { key, index, previous_value: prev };
    let mut buf = [y];
    d.decrypt(&mut buf);
    let p = y.wrapping_sub(prev) ^ key[index as usize];
    assert!(buf[0] == p, "C08: decrypt byte differs from inverse recurrence");
    assert!(d.index == ni && d.previous_value == y, "C08: decrypt next state wrong");
    assert!(key_eq(&d.key, &key), "C08: decrypt changed the key");
    if y == c {
        assert!(buf[0] == x, "C08: decrypt does not invert encrypt");
    }
    kani::cover!(index == 19, "wrap of the key position");
    kani::cover!(y == c, "decrypting the encrypted byte");

    // zero-length calls change nothing
    let mut e0 = EncrypterHalf { key, index, previous_value: prev };
    let mut d0 = DecrypterHalf { key, index, previous_value: prev };
    let mut empty: [u8; 0] = [];
    e0.encrypt(&mut empty);
    d0.decrypt(&mut empty);
    assert!(e0.index == index && e0.previous_value == prev, "C08: empty encrypt changed the state");
    assert!(d0.index == index && d0.previous_value == prev, "C08: empty decrypt changed the state");
}

/// `which`: 0 = encrypt, 1 = decrypt, 2 = both
fn call_is_steps<const NMAX: usize>(index: u8, n: usize, which: u8) {
    let key: [u8; KL] = kani::any();
    let prev: u8 = kani::any();
    kani::assume((index as usize) < KL && n <= NMAX);
    let data: [u8; NMAX] = kani::any();
    let end_index = (index as usize + n) % KL;

    if which != 1 {
        let mut e = EncrypterHalf { key, index, previous_value: prev };
        let mut out = data;
        e.encrypt(&mut out[..n]);
        // stated locally per byte (no recomputed chain): c[i] - c[i-1] == x[i] ^ key[pos(i)]
        let mut i = 0;
        while i < NMAX {
            if i < n {
                let cprev = if i == 0 { prev } else { out[i - 1] };
                let ei = (index as usize + i) % KL;
                assert!(out[i].wrapping_sub(cprev) == data[i] ^ key[ei], "C08: byte of a multi-byte encrypt call differs from the recurrence");
            } else {
                assert!(out[i] == data[i], "C08: encrypt wrote beyond its slice");
            }
            i += 1;
        }
        let ep = if n == 0 { prev } else { out[n - 1] };
        assert!(e.index as usize == end_index && e.previous_value == ep, "C08: state after a multi-byte encrypt call wrong");
        assert!(key_eq(&e.key, &key), "C08: encrypt changed the key");
    }
    if which != 0 {
        let mut d = DecrypterHalf { key, index, previous_value: prev };
        let mut dout = data;
        d.decrypt(&mut dout[..n]);
        let mut i = 0;
        while i < NMAX {
            if i < n {
                let dprev = if i == 0 { prev } else { data[i - 1] };
                let ei = (index as usize + i) % KL;
                assert!(dout[i] == data[i].wrapping_sub(dprev) ^ key[ei], "C08: byte of a multi-byte decrypt call differs from the recurrence");
            } else {
                assert!(dout[i] == data[i], "C08: decrypt wrote beyond its slice");
            }
            i += 1;
        }
        let dp = if n == 0 { prev } else { data[n - 1] };
        assert!(d.index as usize == end_index && d.previous_value == dp, "C08: state after a multi-byte decrypt call wrong");
        assert!(key_eq(&d.key, &key), "C08: decrypt changed the key");
    }
}

/// C08: an n-byte encrypt call is n steps, every n <= 48 (longer than the key), from every state.
#[kani::proof]
#[kani::unwind(50)]
fn c08_call_enc() {
    let index: u8 = kani::any();
    let n: usize = kani::any();
    call_is_steps::<48>(index, n, 0);
    kani::cover!(n == 0, "empty call");
    kani::cover!(n == 48 && index == 19, "call longer than the key starting at the last key position");
}

/// C08: same for decrypt.
#[kani::proof]
#[kani::unwind(50)]
fn c08_call_dec() {
    let index: u8 = kani::any();
    let n: usize = kani::any();
    call_is_steps::<48>(index, n, 1);
    kani::cover!(n == 0, "empty call");
    kani::cover!(n == 48 && index == 19, "call longer than the key starting at the last key position");
}

/// C08: one call of 260 bytes starting at key position 19 (position + length >= 256, more than six
/// key laps) is 260 steps; key, chaining byte and data symbolic.
#[kani::proof]
#[kani::unwind(262)]
fn c08_call_long() {
    call_is_steps::<260>(19, 260, 2);
    kani::cover!(true, "long call");
}

/// C08: splitting a call anywhere (including empty pieces) changes nothing; paired halves round-trip
/// under different chunking on the two sides.
const SPL: usize = 8;
#[kani::proof]
#[kani::unwind(22)]
fn c08_split_call() {
    let (key, index, prev) = any_state();
    let n: usize = kani::any();
    let cut: usize = kani::any();
    let cut2: usize = kani::any();
    kani::assume(n <= SPL && cut <= n && cut2 <= n);
    let data: [u8; SPL] = kani::any();

    let mut e2 = EncrypterHalf { key, index, previous_value: prev };
    let mut b = data;
    e2.encrypt(&mut b[..cut]);
    e2.encrypt(&mut b[cut..n]);
    // the two calls together satisfy the recurrence across the cut, i.e. they equal one call
    let mut ei = index as usize;
    let mut i = 0;
    while i < n {
        let cprev = if i == 0 { prev } else { b[i - 1] };
        assert!(b[i].wrapping_sub(cprev) == data[i] ^ key[ei], "C08: chunking changed the ciphertext");
        ei = if ei + 1 == KL { 0 } else { ei + 1 };
        i += 1;
    }
    let ep = if n == 0 { prev } else { b[n - 1] };
    assert!(e2.index as usize == ei && e2.previous_value == ep, "C08: chunking changed the encrypter state");

    // receiver with its own chunking
    let mut d = DecrypterHalf { key, index, previous_value: prev };
    d.decrypt(&mut b[..cut2]);
    d.decrypt(&mut b[cut2..n]);
    let mut i = 0;
    while i < SPL {
        assert!(b[i] == data[i], "C08: receiver did not recover the plaintext");
        i += 1;
    }
    assert!(d.index == e2.index && d.previous_value == e2.previous_value, "C08: halves out of step after a round trip");
    kani::cover!(cut == 0 && n > 0, "empty first piece");
    kani::cover!(cut == n && n > 0 && index > 15, "empty second piece, key position wraps");
    kani::cover!(cut != cut2 && cut > 0 && cut2 > 0 && cut < n && cut2 < n, "different chunking on both sides");
}

/// C08: both halves key themselves with HMAC-SHA1(fixed TBC seed, session key) and start at (key, 0, 0).
const TBC_SEED: [u8; 16] = [
    0x38, 0xA7, 0x83, 0x15, 0xF8, 0x92, 0x25, 0x30, 0x71, 0x98, 0x67, 0xB1, 0x8C, 0x04, 0xE2, 0xAA,
];

fn key20_eq(a: &[u8; 20], b: &[u8; 20]) -> bool {
    key_eq(a, b)
}

#[kani::proof]
#[kani::unwind(42)]
#[kani::stub(core::str::from_utf8, verif_oracle::from_utf8_model)]
fn c08_init() {
    let sk: [u8; 40] = kani::any();
    // specification: one HMAC query keyed by the 16-byte seed over the 40-byte session key
    let expected = verif_oracle::hmac_of(&TBC_SEED, &[&sk]);
    let before = verif_oracle::n_queries();

    let e = EncrypterHalf::new(sk);
    let d = DecrypterHalf::new(sk);
    assert!(key20_eq(&e.key, &expected), "C08: encrypter key is not HMAC(seed, session key)");
    assert!(key20_eq(&d.key, &expected), "C08: decrypter key is not HMAC(seed, session key)");
    assert!(e.index == 0 && e.previous_value == 0 && d.index == 0 && d.previous_value == 0, "C08: halves do not start at (0, 0)");
    assert!(verif_oracle::n_queries() == before + 2, "C08: unexpected number of HMAC queries");

    // the public constructors hand out exactly these halves
    let name = crate::normalized_string::verif_h::any_name(16);
    let seed = ProofSeed { seed: kani::any() };
    let (_p, c) = seed.into_client_header_crypto(&name, sk, kani::any());
    assert!(key20_eq(&c.encrypt.key, &expected) && key20_eq(&c.decrypt.key, &expected), "C08: client crypto keyed wrongly");
    assert!(c.encrypt.index == 0 && c.encrypt.previous_value == 0 && c.decrypt.index == 0 && c.decrypt.previous_value == 0, "C08: client crypto not at start");
    let sseed = ProofSeed { seed: kani::any() };
    match sseed.into_server_header_crypto(&name, sk, kani::any(), kani::any()) {
        Ok(s) => {
            assert!(key20_eq(&s.encrypt.key, &expected) && key20_eq(&s.decrypt.key, &expected), "C08: server crypto keyed wrongly");
            assert!(s.encrypt.index == 0 && s.encrypt.previous_value == 0 && s.decrypt.index == 0 && s.decrypt.previous_value == 0, "C08: server crypto not at start");
            kani::cover!(true, "server accepted");
        }
        Err(_) => {
            kani::cover!(true, "server refused");
        }
    }
}
