// Self-contained harness injected as child module `verif_stream` of `wrath_header::inner_crypto`: it names only
// `InnerCrypto::new` and `InnerCrypto::apply` (no struct fields), so it survives changes of the struct layout.
#![allow(dead_code, unused_imports)]
use crate::rc4::verif_h as rc4h;
use crate::wrath_header::inner_crypto::InnerCrypto;

/// C09 (through the constructor only, no knowledge of the struct's fields): with RC4 abstracted as a
/// position-indexed pad (`Rc4::new` gives an arbitrary 256-byte pad, `apply_keystream` XORs pad bytes at
/// consecutive positions), `InnerCrypto::new` followed by calls of 250, 10 and 3 bytes must consume pad
/// positions 1024.., each exactly once and in order — whatever buffering the implementation uses internally.
/// Robust against changes of the struct layout.
#[kani::proof]
#[kani::unwind(1030)]
#[kani::stub(crate::rc4::Rc4::new, rc4h::stub_new_any_pad)]
#[kani::stub(crate::rc4::Rc4::apply_keystream, rc4h::pad_apply)]
fn c09_inner_stream() {
    let sk: [u8; 40] = kani::any();
    let dir: [u8; 16] = kani::any();
    let mut c = InnerCrypto::new(sk, &dir);
    let data: [u8; 263] = kani::any();
    let mut out = data;
    c.apply(&mut out[..250]);
    c.apply(&mut out[250..260]);
    c.apply(&mut out[260..263]);
    let pad = rc4h::last_pad();
    let mut k = 0;
    while k < 263 {
        // keystream byte number 1024 + k sits at pad position (1024 + k + 1) mod 256
        assert!(out[k] == data[k] ^ pad[(1024 + k + 1) % 256], "C09: stream byte is not data XOR keystream byte number 1024 + k");
        k += 1;
    }
    kani::cover!(true, "three calls crossing byte 240 and 256");
}
