// Harness injected as module `verif_h` of the crate root: the whole login exchange through the public API.
#![allow(dead_code, unused_imports, non_snake_case)]
use crate::client::SrpClientChallenge;
use crate::key::{PrivateKey, Salt, Verifier};
use crate::normalized_string::verif_h::name_bytes;
use crate::normalized_string::NormalizedString;
use crate::primes::{Generator, LargeSafePrime};
use crate::server::verif_h::{eq20, eq32, eq40};
use crate::server::SrpVerifier;
use crate::srp_internal::verif_h as sih;
use crate::srp_internal_client::verif_h as sch;
use crate::PublicKey;

fn draw32(i: usize) -> [u8; 32] {
    verif_oracle::draw_bytes(i)
}

fn login_flow<const L: usize>() {
    // ---- registration (server). Credentials are arbitrary normalised values of at most L bytes; that
    // every spelling of the same credentials normalises to the same value is c13_case / c13_accept ----
    let name = crate::normalized_string::verif_h::any_name(L as u8);
    let pw = crate::normalized_string::verif_h::any_name(L as u8);
    let d0 = verif_oracle::n_draws();
    let ver = SrpVerifier::from_username_and_password(name.clone(), pw.clone());
    assert!(verif_oracle::n_draws() == d0 + 1, "harness: registration did not draw exactly one value (the flow harness reads the salt from the draw log)");
    let salt = draw32(d0);

    // ---- export to storage and re-import ----
    let stored_name = String::from(ver.username());
    let stored_v = *ver.password_verifier();
    let stored_salt = *ver.salt();
    drop(ver);
    let reimported_name = match NormalizedString::new(stored_name.as_str()) {
        Ok(n) => n,
        Err(_) => {
            assert!(false, "C01: the stored username cannot be re-imported");
            unreachable!()
        }
    };
    let ver = SrpVerifier::from_database_values(reimported_name, stored_v, stored_salt);

    // ---- challenge (server) ----
    let proof = ver.into_proof();
    assert!(verif_oracle::n_draws() == d0 + 2, "harness: into_proof did not draw exactly one value (the flow harness reads b from the draw log)");
    let b = draw32(d0 + 1);
    let b_pub_bytes = *proof.server_public_key();
    let salt_sent = *proof.salt();

    // ---- client: the same credentials after normalisation ----
    let cname = name.clone();
    let cpw = pw.clone();
    let b_pub = match PublicKey::from_le_bytes(b_pub_bytes) {
        Ok(k) => k,
        Err(_) => {
            assert!(false, "C01: the client cannot parse the server's public key");
            unreachable!()
        }
    };
    let n_le = crate::LARGE_SAFE_PRIME_LITTLE_ENDIAN;
    let g = crate::GENERATOR;
    let challenge = SrpClientChallenge::new(cname, cpw, g, n_le, b_pub, salt_sent);
    assert!(verif_oracle::n_draws() == d0 + 3, "harness: the client did not draw exactly one value (the flow harness reads a from the draw log)");
    let a = draw32(d0 + 2);
    let a_pub_bytes = *challenge.client_public_key();
    let m1 = *challenge.client_proof();

    // ---- the mathematics of SRP-6, stated over the specification terms (assumed, see DESIGN.md C01) ----
    // terms of an honest run, built from the harness's own copies of U, P, salt, a, b
    let gen = || Generator::from(7);
    let prime = || LargeSafePrime::from_le_bytes(sih::N_LE);
    let v_spec = sih::stub_verifier(&name, &pw, &Salt::from_le_bytes(salt));
    let x_spec = sih::stub_x(&name, &pw, &Salt::from_le_bytes(salt));
    let b_spec = match sih::stub_server_public_key(&Verifier::from_le_bytes(v_spec), &PrivateKey::from_le_bytes(b)) {
        Ok(k) => k,
        Err(_) => unreachable!(),
    };
    let a_spec = match sch::stub_client_public_key(&PrivateKey::from_le_bytes(a), &gen(), &prime()) {
        Ok(k) => k,
        Err(_) => unreachable!(),
    };
    let u_spec = sih::stub_u(&a_spec, &b_spec);
    let s_cli = sch::stub_client_S(&b_spec, &x_spec, &PrivateKey::from_le_bytes(a), &u_spec, &gen(), &prime());
    let s_srv = sih::stub_S(&a_spec, &Verifier::from_le_bytes(v_spec), &u_spec, &PrivateKey::from_le_bytes(b));
    // Lemma L: (A * v^u)^b == (B - 3*g^x)^(a + u*x)  (mod N)  for A = g^a, B = 3v + g^b, v = g^x
    kani::assume(eq32(s_srv.as_le_bytes(), s_cli.as_le_bytes()));
    let k_spec = sih::stub_interleaved(&s_cli);
    let m1_cli = sch::stub_client_proof_custom(&name, &k_spec, &a_spec, &b_spec, &Salt::from_le_bytes(salt), prime(), gen());
    let m1_srv = sih::stub_client_proof(&name, &k_spec, &a_spec, &b_spec, &Salt::from_le_bytes(salt));
    // Lemma M: with the built-in group both M1 functions hash the same message (c03_m1_builtin, c03_m1_custom, XOR constant)
    kani::assume(eq20(m1_srv.as_le_bytes(), m1_cli.as_le_bytes()));

    // ---- server verifies the client ----
    let a_pub = match PublicKey::from_le_bytes(a_pub_bytes) {
        Ok(k) => k,
        Err(_) => {
            assert!(false, "C01: the server cannot parse the client's public key");
            unreachable!()
        }
    };
    let (server, m2) = match proof.into_server(a_pub, m1) {
        Ok(r) => r,
        Err(e) => {
            core::mem::forget(e);
            assert!(false, "C01: the server rejected an honest client");
            unreachable!()
        }
    };
    // ---- client verifies the server ----
    let client = match challenge.verify_server_proof(m2) {
        Ok(c) => c,
        Err(e) => {
            core::mem::forget(e);
            assert!(false, "C01: the client rejected an honest server");
            unreachable!()
        }
    };
    assert!(eq40(server.session_key(), client.session_key()), "C01: client and server hold different session keys");
    assert!(eq40(server.session_key(), k_spec.as_le_bytes()), "C01: the session key is not K(S)");

    let (_, ul) = name_bytes(&name);
    let (_, pl) = name_bytes(&pw);
    kani::cover!(ul == L && pl == 1, "longest name, shortest password");
}

#[kani::proof]
#[kani::unwind(42)]
#[kani::stub(core::str::from_utf8, verif_oracle::from_utf8_model)]
#[kani::stub(crate::srp_internal::calculate_password_verifier, sih::stub_verifier)]
#[kani::stub(crate::srp_internal::calculate_server_public_key, sih::stub_server_public_key)]
#[kani::stub(crate::srp_internal_client::calculate_client_public_key, sch::stub_client_public_key)]
#[kani::stub(crate::srp_internal::calculate_x, sih::stub_x)]
#[kani::stub(crate::srp_internal::calculate_u, sih::stub_u)]
#[kani::stub(crate::srp_internal_client::calculate_client_S, sch::stub_client_S)]
#[kani::stub(crate::srp_internal::calculate_S, sih::stub_S)]
#[kani::stub(crate::srp_internal::calculate_interleaved, sih::stub_interleaved)]
#[kani::stub(crate::srp_internal_client::calculate_client_proof_with_custom_value, sch::stub_client_proof_custom)]
#[kani::stub(crate::srp_internal::calculate_client_proof, sih::stub_client_proof)]
#[kani::stub(crate::srp_internal::calculate_server_proof, sih::stub_server_proof)]
fn c01_flow() {
    login_flow::<16>();
}
