// Helpers injected as child module `verif_h` of `wrath_header::encrypt` (private fields of the halves).
#![allow(dead_code, unused_imports)]
use super::*;
use crate::wrath_header::inner_crypto::verif_h as ich;

pub(crate) fn mk_server_enc(inner: InnerCrypto, server_header: [u8; 5]) -> ServerEncrypterHalf {
    ServerEncrypterHalf { encrypt: inner, server_header }
}
pub(crate) fn any_server_enc() -> ServerEncrypterHalf {
    ServerEncrypterHalf { encrypt: ich::any_inner(), server_header: kani::any() }
}
pub(crate) fn any_server_enc_at(i: u8) -> ServerEncrypterHalf {
    ServerEncrypterHalf { encrypt: ich::any_inner_at(i), server_header: kani::any() }
}
pub(crate) fn any_client_enc_at(i: u8) -> ClientEncrypterHalf {
    ClientEncrypterHalf { encrypt: ich::any_inner_at(i) }
}
pub(crate) fn server_enc_inner(e: &ServerEncrypterHalf) -> &InnerCrypto {
    &e.encrypt
}
pub(crate) fn mk_client_enc(inner: InnerCrypto) -> ClientEncrypterHalf {
    ClientEncrypterHalf { encrypt: inner }
}
pub(crate) fn any_client_enc() -> ClientEncrypterHalf {
    ClientEncrypterHalf { encrypt: ich::any_inner() }
}
pub(crate) fn client_enc_inner(e: &ClientEncrypterHalf) -> &InnerCrypto {
    &e.encrypt
}
