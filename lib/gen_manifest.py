#!/usr/bin/env python3
"""Generate /verif/MANIFEST.json from the registry (run after editing registry.py)."""
import json, os, sys
sys.path.insert(0, os.path.dirname(os.path.abspath(__file__)))
import registry

VERIF = os.path.dirname(os.path.dirname(os.path.abspath(__file__)))
ALL = ["C%02d" % i for i in range(1, 20)]
checks = []
for pid in ALL:
    p = registry.PROPERTIES.get(pid)
    hs = [h for h in registry.HARNESSES if h["prop"] == pid]
    if not p or not hs or p.get("not_applicable"):
        continue
    checks.append({
        "property_id": pid,
        "quick_cmd": "./check %s --tier quick" % pid,
        "thorough_cmd": "./check %s --tier thorough" % pid,
        "evidence_file": "evidence/%s.json" % pid,
        "replay_cmd_template": "./check %s --replay {path}" % pid,
        "engine": "kani",
        "level_claimed": {
            "category": "model_checking",
            "text": p.get("level_text", "Bounded symbolic verification (Kani/CBMC, SAT) of the real code: every harness "
                          "quantifies over all values of its symbolic inputs within the stated bounds; see evidence "
                          "for functions encoded, bounds, queries and solver time."),
            "design_ref": "DESIGN.md section 4, %s" % pid,
        },
        "level_note": p.get("level_note", "; ".join(p.get("assumptions", [])) or "rustc+Kani+CBMC+CaDiCaL"),
        "technique": p.get("technique", "Kani 0.68 / CBMC 6.11 bounded model checking of the compiled crate (SAT: CaDiCaL), "
                                        "counterexamples replayed natively by Kani concrete playback"),
    })
na = []
for pid in ALL:
    p = registry.PROPERTIES.get(pid, {})
    if pid not in [c["property_id"] for c in checks]:
        na.append({"property_id": pid, "reason": p.get("not_applicable", "check not built yet in this framework (work in progress)")})
m = {
    "version": 1,
    "setup_cmd": "./lib/setup.sh",
    "hooks": {
        "guard": "cfg(kani)",
        "enable": "no hooks are committed to /repo: each check copies /repo's working tree to a scratch directory, appends `#[cfg(kani)] pub(crate) mod verif_h;` to the modules under analysis and patches the dependency crates with the models in /verif/models; cfg(kani) is set only by the Kani compiler",
        "baseline_off_cmd": "cd /repo && cargo test --workspace --no-fail-fast --offline",
        "source_commits": [],
        "add_only": True,
    },
    "engines": [
        {"name": "kani", "path": "/verif/check", "serves_properties": [c["property_id"] for c in checks],
         "kind_free_text": "Kani 0.68.0 (CBMC 6.11.0, CaDiCaL) harnesses in /verif/harness injected into a scratch copy of /repo; dependency models in /verif/models"},
    ],
    "checks": checks,
    "not_applicable": na,
    "notes": "Exit codes of ./check: 0 = all obligations discharged; 1 = violation reproduced by native concrete playback (VIOLATION line); 2 = inconclusive (timeout, out of memory, build failure, unwinding bound, vacuity witness unsatisfied, unreproduced counterexample). fix: commits in /repo are listed in known_findings.txt.",
}
json.dump(m, open(os.path.join(VERIF, "MANIFEST.json"), "w"), indent=1)
print("wrote MANIFEST.json with %d checks, %d not applicable" % (len(checks), len(na)))
