#!/bin/sh
# Offline setup: nothing to build ahead of time (each check builds its scratch copy with cargo kani).
# Verifies that the tools the checks need are present.
set -e
cd "$(dirname "$0")/.."
command -v cargo >/dev/null
cargo kani --version >/dev/null
command -v cbmc >/dev/null
command -v rsync >/dev/null
python3 -c "import sys; sys.path.insert(0,'lib'); import registry; print('harnesses:', len(registry.HARNESSES))"
mkdir -p evidence logs replays
echo "setup ok"
