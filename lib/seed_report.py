#!/usr/bin/env python3
"""Print the seeded-change detection table (markdown) from /verif/seeded/*/meta.json."""
import json, os, glob, re
V = os.path.dirname(os.path.dirname(os.path.abspath(__file__)))
rows = []
for d in sorted(glob.glob(os.path.join(V, "seeded", "*"))):
    m = json.load(open(os.path.join(d, "meta.json")))
    sid = os.path.basename(d)
    need = (m.get("needs_to_manifest") or "").strip().split("\n")[0][:150]
    det = m.get("detection", {})
    cells = []
    for tier in ("quick", "thorough"):
        for p, r in sorted(det.get(tier, {}).items()):
            verdict = {0: "MISSED (exit 0)", 1: "VIOLATION", 2: "inconclusive"}.get(r["exit"], "exit %s" % r["exit"])
            hs = sorted({re.search(r"replay=\S*/C\d\d-(\w+)\.json", l).group(1) for l in r["lines"] if "VIOLATION" in l and re.search(r"replay=\S*/C\d\d-(\w+)\.json", l)})
            inc = sorted({l.split(" ")[2].rstrip(":") for l in r["lines"] if l.startswith("INCONCLUSIVE")})
            cells.append("%s %s: %s%s%s (%ds)" % (p, tier, verdict, (" by " + ", ".join(hs)) if hs else "", (" [inconclusive: " + ", ".join(inc) + "]") if inc and r["exit"] != 1 else "", r["wall_s"]))
    rows.append("| %s | %s | %s |" % (sid, need.replace("|", "/"), "; ".join(cells) or "not run"))
print("| seeded change | what it is (first line of the author's note) | result of ./check |")
print("|---|---|---|")
print("\n".join(rows))
