"""Registry of properties and Kani harnesses (see DESIGN.md section 4).

Each harness entry:
  prop, module (Rust module path the harness file is injected into as child `verif_h`), name,
  tiers (default both), timeout (s; per tier via dict), functional (True: skip pointer checks; False:
  all default Kani checks), features (cargo features of wow_srp), oracle_features (capacity of the
  oracle tables), needs (other modules whose harness file must be injected too),
  encodes / inputs / asserts / bounds / assumes: documentation copied into the evidence file.
"""
import os
import re

HARNESSES = []
PROPERTIES = {}
# harness files that use helpers living in another module's harness file
MODULE_NEEDS = {
    "vanilla_header": ["normalized_string"],
    "tbc_header": ["normalized_string", "vanilla_header"],
}


def H(prop, module, name, **kw):
    d = dict(prop=prop, module=module, name=name)
    d.update(kw)
    HARNESSES.append(d)
    return d


def resolve(h, tier):
    """pick per-tier values for keys that are dicts {quick:.., thorough:..}"""
    out = {}
    for k, v in h.items():
        if isinstance(v, dict) and set(v.keys()) <= {"quick", "thorough"}:
            out[k] = v.get(tier, v.get("quick"))
        else:
            out[k] = v
    # tier-specific harness name suffix (Kani harness functions differ in their bounds)
    return out


def P(pid, **kw):
    PROPERTIES[pid] = kw


HASH_ASSUME = "SHA-1/HMAC-SHA1/MD5 are modelled as uninterpreted deterministic functions (verif_oracle); collision resistance is assumed wherever 'different message => different digest' is needed"
BIG_ASSUME = "num-bigint is modelled: exact byte conversion/equality, uninterpreted modpow/mul/add/sub/rem with size and sign contracts"
RNG_ASSUME = "rand is modelled: every draw is an unconstrained value recorded in a draw log"

# ------------------------------------------------------------------------------------------------
# C04
# ------------------------------------------------------------------------------------------------
P("C04",
  outside=["nothing within the 32-byte encoding space is excluded; the big-integer byte conversion itself is the model's (exact) conversion, validated against num-bigint in selftest"],
  assumptions=[BIG_ASSUME])
H("C04", "key", "c04_exact", timeout=300,
  encodes=["key::check_public_key", "key::PublicKey::from_le_bytes", "key::PublicKey::as_le_bytes"],
  inputs="key: [u8;32] = any (all 2^256 arrays)",
  asserts="Err(PublicKeyIsZero) <=> key==0; Err(PublicKeyModLargeSafePrimeIsZero) <=> key==N; otherwise Ok and as_le_bytes()==key",
  bounds="none beyond the fixed 32-byte width; unwind 34", assumes=[])
H("C04", "key", "c04_server_b", timeout=600, oracle_features=["b4"],
  encodes=["key::PublicKey::try_from_bigint", "bigint::Integer::to_bytes_le", "bigint::Integer::from_bytes_le"],
  inputs="i: 32 arbitrary bytes read as a big integer (every value < 2^256, every count of high zero bytes)",
  asserts="try_from_bigint(i) has the same Ok/Err kind as from_le_bytes(pad32(i)) and the same bytes",
  bounds="values < 2^256 (the only ones a reduced result can take); unwind 66", assumes=[BIG_ASSUME])
H("C04", "key", "c04_client_a", timeout=900, oracle_features=["b4"],
  encodes=["key::PublicKey::client_try_from_bigint", "bigint::Integer::is_zero", "bigint::Integer::mod_large_safe_prime_is_zero"],
  inputs="announced modulus N': any 32 bytes != 0; candidate A: any value <= N' (what g^a mod N' can be, plus N' itself)",
  asserts="Err(Zero) <=> A==0; Err(ModZero) <=> A==N'; otherwise Ok(pad32(A)) - independent of the built-in N",
  bounds="A <= N' < 2^256; unwind 66", assumes=[BIG_ASSUME])

# ------------------------------------------------------------------------------------------------
# C07
# ------------------------------------------------------------------------------------------------
P("C07",
  outside=["single calls longer than 300 bytes (thorough: 600) are covered only through the step lemma + induction argument, not executed"],
  assumptions=["induction over the one-step / one-call lemmas extends the bounded harnesses to streams of any length (argument in DESIGN.md section 4, C07)"])
H("C07", "vanilla_header", "c07_step", timeout=900,
  encodes=["vanilla_header::encrypt::encrypt", "vanilla_header::decrypt::decrypt", "EncrypterHalf::encrypt", "DecrypterHalf::decrypt"],
  inputs="key [u8;40], index<40, previous u8, byte u8: all any",
  asserts="one-byte call == recurrence c=(x^key[i])+prev, i'=(i+1)%40, prev'=c; decrypt is the exact inverse with the same next state; invariant index<40 preserved",
  bounds="one step from an arbitrary state (inductive)", assumes=[])
H("C07", "vanilla_header", "c07_call_dec", timeout=900,
  encodes=["vanilla_header::decrypt::decrypt", "DecrypterHalf::decrypt"],
  inputs="key, index<40, previous: any; n: any <= 48; data [u8;48] any",
  asserts="an n-byte decrypt call equals n spec steps; bytes beyond the slice untouched; n=0 changes nothing",
  bounds="n <= 48 bytes per call (symbolic n); unwind 50", assumes=[])
H("C07", "vanilla_header", "c07_call_enc", timeout=900,
  encodes=["vanilla_header::encrypt::encrypt", "EncrypterHalf::encrypt"],
  inputs="key, index<40, previous: any; n: any <= 48; data [u8;48] any",
  asserts="an n-byte encrypt call equals n spec steps (so any partition of a stream gives the same bytes); bytes beyond the slice untouched; n=0 changes nothing",
  bounds="n <= 48 bytes per call (symbolic n); unwind 50", assumes=[])
H("C07", "vanilla_header", "c07_call_long", timeout=1500,
  encodes=["vanilla_header::encrypt::encrypt", "vanilla_header::decrypt::decrypt"],
  inputs="key, previous, data [u8;260]: any; index = 39; n = 260",
  asserts="one 260-byte call equals 260 spec steps on both halves incl. the final position (index + length >= 256 wraps a u8 if mis-computed)",
  bounds="n = 260 exactly, starting position 39; unwind 262", assumes=[])
H("C07", "vanilla_header", "c07_split_call", timeout=1200,
  encodes=["EncrypterHalf::encrypt", "DecrypterHalf::decrypt"],
  inputs="state any; n <= 8, cut, cut2 <= n any; data any",
  asserts="encrypt(data[..cut]); encrypt(data[cut..]) == encrypt(data) incl. empty pieces, same for decrypt; decrypt(encrypt(x)) == x from paired states with arbitrary different chunking on the two sides; states stay paired",
  bounds="n <= 8; unwind 42", assumes=[])
H("C07", "vanilla_header", "c07_init", timeout=300, oracle_features=["cap128", "q4"],
  encodes=["vanilla_header::HeaderCrypto::new", "EncrypterHalf::new", "DecrypterHalf::new", "ProofSeed::into_client_header_crypto", "ProofSeed::into_server_header_crypto"],
  inputs="session key [u8;40] any, name any (1..16), seeds any",
  asserts="halves obtained through the public constructors start at (key = raw session key, index 0, previous 0)",
  bounds="-", assumes=[HASH_ASSUME])

# ------------------------------------------------------------------------------------------------
# C08
# ------------------------------------------------------------------------------------------------
P("C08",
  outside=["HMAC-SHA1 itself (uninterpreted); single calls longer than 260 bytes are covered by the step lemma + induction argument only"],
  assumptions=[HASH_ASSUME, "induction over the one-step / one-call lemmas extends the bounded harnesses to streams of any length"])
H("C08", "tbc_header", "c08_step", timeout=900,
  encodes=["tbc_header::encrypt::encrypt", "tbc_header::decrypt::decrypt", "EncrypterHalf::encrypt", "DecrypterHalf::decrypt"],
  inputs="key [u8;20], index<20, previous u8, byte u8: all any",
  asserts="one-byte call == recurrence over the 20-byte key (position modulo 20); decrypt is the exact inverse with the same next state; empty calls change nothing",
  bounds="one step from an arbitrary state (inductive)", assumes=[])
H("C08", "tbc_header", "c08_call_enc", timeout=900,
  encodes=["tbc_header::encrypt::encrypt"], inputs="key, index<20, previous: any; n: any <= 48; data any",
  asserts="an n-byte encrypt call equals n spec steps; bytes beyond the slice untouched", bounds="n <= 48 (symbolic); unwind 50", assumes=[])
H("C08", "tbc_header", "c08_call_dec", timeout=900,
  encodes=["tbc_header::decrypt::decrypt"], inputs="key, index<20, previous: any; n: any <= 48; data any",
  asserts="an n-byte decrypt call equals n spec steps; bytes beyond the slice untouched", bounds="n <= 48 (symbolic); unwind 50", assumes=[])
H("C08", "tbc_header", "c08_call_long", timeout=1500,
  encodes=["tbc_header::encrypt::encrypt", "tbc_header::decrypt::decrypt"],
  inputs="key, previous, data [u8;260]: any; index = 19; n = 260",
  asserts="one 260-byte call equals 260 spec steps on both halves incl. the final position (index + length >= 256)",
  bounds="n = 260 exactly, starting position 19; unwind 262", assumes=[])
H("C08", "tbc_header", "c08_split_call", timeout=900,
  encodes=["EncrypterHalf::encrypt", "DecrypterHalf::decrypt"], inputs="state any; n <= 8, cut, cut2 <= n any; data any",
  asserts="two consecutive calls equal one call (incl. empty pieces); paired halves round-trip under different chunking and stay paired",
  bounds="n <= 8; unwind 22", assumes=[])
H("C08", "tbc_header", "c08_init", timeout=900, oracle_features=["cap128", "q16"],
  encodes=["tbc_header::encrypt::EncrypterHalf::new", "tbc_header::decrypt::DecrypterHalf::new", "tbc_header::HeaderCrypto::new", "ProofSeed::into_client_header_crypto", "ProofSeed::into_server_header_crypto"],
  inputs="session key [u8;40], name, seeds, proof: any",
  asserts="both halves' key == HMAC(16-byte TBC seed, 40-byte session key) (one query each, same query), index 0, previous 0; also through the public constructors",
  bounds="-", assumes=[HASH_ASSUME])

# ------------------------------------------------------------------------------------------------
# C13
# ------------------------------------------------------------------------------------------------
P("C13",
  outside=["strings longer than 24 bytes: only len() is inspected for them, shown for 17..24",
           "core::str::from_utf8 is replaced by an equivalent byte-loop validator (Unicode table 3-7); core's own validator is not executed"],
  assumptions=["verif_oracle::from_utf8_model has the same accept set as core::str::from_utf8 (validated in selftest)"])
H("C13", "normalized_string", "c13_accept", timeout=1800,
  encodes=["NormalizedString::new", "NormalizedString::as_ref"],
  inputs="bytes [u8;24] any, len <= 24 any, assumed well-formed UTF-8 (every scalar value at every position)",
  asserts="Ok <=> 1<=len<=16 and all bytes in 0x20..=0x7E; stored text == input with a-z upper-cased, zero padded; as_ref()==that; StringTooLong <=> len==0 or len>16; else CharacterNotAllowed(first offending scalar); no panic",
  bounds="all UTF-8 strings of <= 24 bytes; unwind 26", assumes=["from_utf8 stub"])
H("C13", "normalized_string", "c13_constructors", timeout=900,
  encodes=["NormalizedString::from_str", "NormalizedString::from_string", "TryFrom<&str>", "TryFrom<String>"],
  inputs="all UTF-8 strings of <= 4 bytes, plus one 17-byte ASCII string",
  asserts="all five constructors return the same Ok value / the same error kind and character",
  bounds="<= 4 bytes (the constructors delegate; the length is irrelevant to delegation); unwind 19", assumes=["from_utf8 stub"])
H("C13", "normalized_string", "c13_case", timeout=1500,
  encodes=["NormalizedString::new", "NormalizedString::as_ref", "PartialEq"],
  inputs="every accepted string (1..16 printable bytes) and every case variant (mask of 16 bits)",
  asserts="new(s) == new(case variant of s); new(new(s).as_ref()) == new(s)", bounds="full; unwind 18", assumes=["from_utf8 stub"])
H("C13", "normalized_string", "c13_relations", timeout=1500,
  encodes=["derive(PartialEq, Eq, Ord, PartialOrd, Hash) for NormalizedString"],
  inputs="two arbitrary values satisfying the representation invariant",
  asserts="==, cmp, partial_cmp agree with lexicographic comparison of the normalised texts; equal texts feed identical bytes to a Hasher",
  bounds="full; unwind 50", assumes=["from_utf8 stub"])
H("C13", "normalized_string", "c13_display", timeout=1500,
  encodes=["Display for NormalizedString"], inputs="arbitrary valid value",
  asserts="Display writes exactly the normalised text", bounds="full; unwind 18", assumes=["from_utf8 stub"])

# ------------------------------------------------------------------------------------------------
# C11 / C12 (vanilla part)
# ------------------------------------------------------------------------------------------------
IO_ASSUME = "Read/Write are nondeterministic stubs: arbitrary fragmentation, Interrupted, 8 error kinds, Ok(0), at most 8 calls per operation; std's read_exact/write_all are executed, not modelled"
P("C11",
  outside=["more than 8 read/write calls per header operation", "Wrath keystream abstracted as a symbolic one-time pad (licensed by C09)"],
  assumptions=[IO_ASSUME])
P("C12",
  outside=["thread schedules are not executed (Kani has no concurrency): covered by the ownership argument plus the syntactic no-shared-state guard"],
  assumptions=["halves are distinct owned values; the crate contains no unsafe, static mut, Cell/RefCell, atomics, locks or thread_local (checked syntactically on every run)"])
for _h, _t in [("c11_typed_helpers", 900), ("c11_read_client", 1800), ("c11_read_server", 1800), ("c11_write_client", 1800), ("c11_write_server", 1800),
               ("c11_read_client_facade", 1800), ("c11_read_server_facade", 1800), ("c11_write_client_facade", 1800), ("c11_write_server_facade", 1800)]:
    H("C11", "vanilla_header", _h, timeout=_t, tiers=(["thorough"] if _h.endswith("_facade") else ["quick", "thorough"]),
      encodes=["vanilla_header::{EncrypterHalf,DecrypterHalf,HeaderCrypto}::* header entry points", "ServerHeader::from_array", "ClientHeader::from_array"],
      inputs="arbitrary combined cipher state; arbitrary size/opcode or wire bytes; nondeterministic reader/writer",
      asserts="typed helper / facade / accessor / Read / Write wrapper == raw operation on the wire layout (size BE, opcode LE) with the same post-state; failed read leaves the decrypter unchanged; failing writer reported",
      bounds="<= 8 I/O calls; unwind 42", assumes=[IO_ASSUME])
for _h in ["c12_frame", "c12_split_unsplit"]:
    H("C12", "vanilla_header", _h, timeout=900,
      encodes=["vanilla_header::HeaderCrypto::{encrypt,decrypt,split,clone}", "EncrypterHalf::{unsplit,is_pair_of}", "DecrypterHalf::is_pair_of"],
      inputs="arbitrary combined state / arbitrary pair of halves (all pairs of 40-byte keys)",
      asserts="frame property per direction; split/clone/unsplit identities; unsplit Ok <=> all 40 key bytes equal, halves unchanged",
      bounds="chunks <= 6 bytes (chunk generality is C07); unwind 42", assumes=[])

for _h, _t in [("c11_tbc_typed_helpers", 900), ("c11_tbc_read_client", 1800), ("c11_tbc_read_server", 1800), ("c11_tbc_write_client", 1800), ("c11_tbc_write_server", 1800),
               ("c11_tbc_read_client_facade", 1800), ("c11_tbc_read_server_facade", 1800), ("c11_tbc_write_client_facade", 1800), ("c11_tbc_write_server_facade", 1800)]:
    H("C11", "tbc_header", _h, timeout=_t, tiers=(["thorough"] if _h.endswith("_facade") else ["quick", "thorough"]),
      encodes=["tbc_header::{EncrypterHalf,DecrypterHalf,HeaderCrypto}::* header entry points"],
      inputs="arbitrary combined cipher state; arbitrary size/opcode or wire bytes; nondeterministic reader/writer",
      asserts="as the vanilla C11 harnesses, over the TBC types",
      bounds="<= 8 I/O calls; unwind 42", assumes=[IO_ASSUME])
for _h in ["c12_tbc_frame", "c12_tbc_split"]:
    H("C12", "tbc_header", _h, timeout=900,
      encodes=["tbc_header::HeaderCrypto::{encrypt,decrypt,split,clone}"],
      inputs="arbitrary combined state", asserts="frame property per direction; split/clone identities",
      bounds="chunks <= 6 bytes; unwind 42", assumes=[])

MODULE_NEEDS.update({
    "rc4": [],
    "wrath_header::inner_crypto": ["rc4"],
    "wrath_header::encrypt": ["wrath_header::inner_crypto"],
    "wrath_header::decrypt": ["wrath_header::inner_crypto"],
    "wrath_header": ["wrath_header::encrypt", "wrath_header::decrypt", "wrath_header::inner_crypto", "rc4", "vanilla_header", "normalized_string"],
})
PAD_ASSUME = "Wrath keystream abstracted: InnerCrypto::apply is stubbed by a symbolic one-time pad (any keystream is a possible pad; 'equal states => equal keystream and equal next state' is C09's step lemma)"
# ------------------------------------------------------------------------------------------------
# C09
# ------------------------------------------------------------------------------------------------
P("C09",
  outside=["RC4 key scheduling for ALL keys (the symbolic-key query timed out at 50 min in the design probe): only a concrete-key instance is checked here, the rest rests on the repository's RFC 6229 / vector tests",
           "HMAC-SHA1 itself (uninterpreted)", "executing the 1024 dropped steps: the drop length is established structurally (one keystream application over a 1024-byte buffer before first use)"],
  assumptions=[HASH_ASSUME, "induction over the one-step lemma extends to streams of any length and chunking"])
H("C09", "rc4", "c09_prga_step", timeout=600,
  encodes=["rc4::Rc4::apply_keystream", "rc4::Rc4::pseudo_random_generation"],
  inputs="state [u8;256], i, j, input byte: all any", asserts="one keystream byte and next state == textbook PRGA step (incl. counter wrap and i==j swap); empty call is the identity",
  bounds="one step from an arbitrary state (inductive); unwind 258", assumes=[])
H("C09", "rc4", "c09_apply_is_steps", timeout=3600, tiers=["thorough"],
  encodes=["rc4::Rc4::apply_keystream"], inputs="state, i, j any; n in {0,1}; data any",
  asserts="an n-byte call equals n applications of the step function XORed onto the data; empty call is the identity", bounds="n in {0,1} from every state; unwind 258", assumes=[])
H("C09", "rc4", "c09_apply_is_steps_2", timeout=1800,
  encodes=["rc4::Rc4::apply_keystream"], inputs="state, i, j any; n = 2; data any",
  asserts="a 2-byte call equals 2 applications of the step function", bounds="n = 2 from every state; unwind 258", assumes=[])
H("C09", "rc4", "c09_apply_is_steps_4", timeout=1800,
  encodes=["rc4::Rc4::apply_keystream"], inputs="state = identity permutation, i, j any; n = 4; data any",
  asserts="a 4-byte call equals 4 applications of the step function", bounds="n = 4 from the identity permutation with any counters; unwind 258", assumes=[])
H("C09", "rc4", "c09_apply_is_steps_8", timeout=3600, tiers=["thorough"],
  encodes=["rc4::Rc4::apply_keystream"], inputs="state = identity permutation, i, j any; n = 8; data any",
  asserts="an 8-byte call equals 8 applications of the step function", bounds="n = 8 from the identity permutation with any counters; unwind 258", assumes=[])
H("C09", "rc4", "c09_apply_long", timeout=1800,
  encodes=["rc4::Rc4::apply_keystream"], inputs="data [u8;300] any; RC4 state concrete (KSA of a fixed key, 5 bytes consumed)",
  asserts="one 300-byte call made at counter 5 equals 300 PRGA steps (counters wrap inside the call)", bounds="concrete cipher state, n = 300; unwind 302", assumes=[])
H("C09", "rc4", "c09_ksa_concrete", timeout=1800,
  encodes=["rc4::Rc4::new", "rc4::Rc4::key_scheduling_algorithm"], inputs="one concrete 20-byte key",
  asserts="state after Rc4::new == textbook KSA, counters zero", bounds="one concrete key (all-keys out of reach); unwind 258", assumes=[])
H("C09", "wrath_header::inner_crypto", "c09_wiring", timeout=900, oracle_features=["cap64", "q4"],
  encodes=["wrath_header::inner_crypto::InnerCrypto::new"], inputs="session key [u8;40], direction constant [u8;16]: any",
  asserts="exactly one HMAC(constant, session key) query; RC4 keyed exactly once with that 20-byte digest; exactly one keystream application over 1024 bytes before use",
  bounds="-", assumes=[HASH_ASSUME, "Rc4::new and Rc4::apply_keystream replaced by recording stubs in this harness"])
H("C09", "wrath_header::inner_crypto", "c09_inner_apply", timeout=900,
  encodes=["wrath_header::inner_crypto::InnerCrypto::apply"], inputs="arbitrary RC4 state, 1 data byte",
  asserts="apply == Rc4::apply_keystream (bytes and state)", bounds="1 byte (delegation); unwind 258", assumes=[])
H("C09", "wrath_header", "c09_directions", timeout=900, oracle_features=["cap128", "q8"],
  encodes=["ClientEncrypterHalf::new", "ServerDecrypterHalf::new", "ServerEncrypterHalf::new", "ClientDecrypterHalf::new", "ClientCrypto::new", "ServerCrypto::new", "wrath ProofSeed::into_*_header_crypto"],
  inputs="session key, name, seeds, proof: any",
  asserts="client-encrypt and server-decrypt use the client-to-server constant, server-encrypt and client-decrypt the other one, all with the session key; also through the public constructors",
  bounds="-", assumes=[HASH_ASSUME, "InnerCrypto::new replaced by a recording stub in this harness"])
# ------------------------------------------------------------------------------------------------
# C10
# ------------------------------------------------------------------------------------------------
P("C10", outside=["sizes above 0x7FFFFF (not representable in the 23-bit field; excluded by the statement)"],
  assumptions=[PAD_ASSUME, "one header from an arbitrary paired state, with the states paired again afterwards, extends by induction to any sequence of headers"])
H("C10", "wrath_header", "c10_roundtrip", timeout=1200,
  encodes=["ServerEncrypterHalf::encrypt_server_header", "ClientDecrypterHalf::{read_and_decrypt_server_header, attempt_decrypt_server_header, decrypt_large_server_header}", "ServerHeader::from_small_array/from_large_array", "ServerCrypto/ClientCrypto facade methods"],
  inputs="paired cipher state (pad + position) any; size <= 0x7FFFFF any; opcode any",
  asserts="length 4 <=> size <= 0x7FFF; 0x80 marker <=> 5 bytes; both client paths return (size, opcode), consume exactly the emitted bytes, and leave the states paired",
  bounds="all sizes x all opcodes, one header (inductive); unwind 258", assumes=[PAD_ASSUME])
H("C10", "wrath_header", "c10_write", timeout=1200,
  encodes=["ServerEncrypterHalf::write_encrypted_server_header", "ServerCrypto::write_encrypted_server_header"],
  inputs="as c10_roundtrip", asserts="the Write wrapper emits exactly the bytes of encrypt_server_header and leaves the same cipher state", bounds="unwind 258", assumes=[PAD_ASSUME])
for _h in ["c11_wrath_client_header_enc", "c11_wrath_client_header_dec", "c11_wrath_server_header_enc", "c11_wrath_server_header_dec",
           "c11_wrath_read_client", "c11_wrath_read_server", "c11_wrath_read_server_fifth", "c11_wrath_write_client", "c11_wrath_write_server",
           "c11_wrath_read_client_facade", "c11_wrath_read_server_facade", "c11_wrath_write_client_facade", "c11_wrath_write_server_facade"]:
    H("C11", "wrath_header", _h, timeout=(5400 if "read_server" in _h else 1800), tiers=(["thorough"] if (_h.endswith("_facade") or "read_server" in _h) else ["quick", "thorough"]),
      encodes=["wrath_header::{ClientCrypto,ServerCrypto,ClientEncrypterHalf,ServerEncrypterHalf,ClientDecrypterHalf,ServerDecrypterHalf}::* header entry points"],
      inputs="arbitrary cipher states; arbitrary size/opcode or wire bytes; nondeterministic reader/writer",
      asserts="helpers/facade/accessors == raw operation on the wire layout; failed read leaves the decrypter unchanged (5-byte header failing at byte 5: state of the 4-byte attempt, completable later); failing writer reported",
      bounds="<= 8 I/O calls; unwind 258", assumes=[IO_ASSUME, PAD_ASSUME])
H("C12", "wrath_header", "c12_wrath_frame", timeout=1200,
  encodes=["wrath_header::{ClientCrypto,ServerCrypto}::{encrypt,decrypt,split,clone}"],
  inputs="arbitrary independent states of the two halves", asserts="frame property per direction; split/clone identities",
  bounds="chunks <= 6 bytes; unwind 258", assumes=[PAD_ASSUME])


def _c12_precheck(repo):
    """syntactic guard for the threading part of C12: no shared mutable state can exist in the crate"""
    import subprocess
    pat = r"unsafe\s*\{|unsafe\s+fn|unsafe\s+impl|static\s+mut|\bCell<|RefCell<|Atomic[A-Z]|thread_local!|\bMutex<|\bRwLock<|\bRc<|\bArc<|OnceCell|OnceLock|lazy_static"
    p = subprocess.run(["grep", "-rnE", pat, os.path.join(repo, "src")], capture_output=True, text=True)
    hits = [l for l in p.stdout.splitlines() if "/test" not in l]
    lib = open(os.path.join(repo, "src", "lib.rs")).read()
    if "#![forbid(unsafe_code)]" not in lib:
        return False, "crate no longer forbids unsafe code; the ownership argument for thread schedules does not apply"
    if hits:
        return False, "possible shared mutable state, thread-schedule argument not applicable: " + hits[0][:160]
    return True, ""


PROPERTIES["C12"]["precheck"] = _c12_precheck

# ------------------------------------------------------------------------------------------------
# C06
# ------------------------------------------------------------------------------------------------
P("C06", outside=["SHA-1 itself; 'a different username/seed/key yields a different proof' needs collision resistance (the message is shown to contain each field at a fixed offset after the name)"],
  assumptions=[HASH_ASSUME, RNG_ASSUME])
for _m in ["vanilla", "tbc", "wrath"]:
    H("C06", _m + "_header", "c06_%s_client_msg" % _m, timeout=1200, oracle_features=["cap128", "q8"],
      encodes=["%s_header::ProofSeed::{new,seed,into_client_header_crypto}" % _m, "vanilla_header::internal::calculate_world_server_proof"],
      inputs="name (1..16 bytes), session key, server seed: any; own seed = the RNG draw (any)",
      asserts="ProofSeed::new draws 4 bytes; seed() is that draw; proof == SHA-1(name | 0u32 | own seed LE | server seed LE | session key)",
      bounds="-", assumes=[HASH_ASSUME, RNG_ASSUME] + (["wrath: InnerCrypto::new replaced by a recording stub (key schedule irrelevant to the proof)"] if _m == "wrath" else []))
    H("C06", _m + "_header", "c06_%s_server_decision" % _m, timeout=1200, oracle_features=["cap128", "q8"],
      encodes=["%s_header::ProofSeed::into_server_header_crypto" % _m, "vanilla_header::internal::calculate_world_server_proof"],
      inputs="name, session key, both seeds, presented proof: any",
      asserts="Ok <=> presented == SHA-1(name | 0 | client seed | own seed | session key) over all 160 bits; Err carries (presented, expected)",
      bounds="-", assumes=[HASH_ASSUME])

MODULE_NEEDS.update({"server": ["normalized_string", "client"], "client": ["normalized_string", "server"]})
# ------------------------------------------------------------------------------------------------
# C05
# ------------------------------------------------------------------------------------------------
P("C05", outside=["that a fresh 16-byte draw differs from all earlier challenges (RNG quality)", "SHA-1 collision resistance (assumed explicitly in c05_roundtrip only)"],
  assumptions=[HASH_ASSUME, RNG_ASSUME, "one attempt from an arbitrary session state is an inductive step: it covers every finite history of attempts"])
H("C05", "server", "c05_attempt", timeout=1200, oracle_features=["cap128", "q4"],
  encodes=["server::SrpServer::{verify_reconnection_attempt, reconnect_challenge_data, session_key}", "srp_internal::calculate_reconnect_proof", "key::ReconnectData::randomize_data"],
  inputs="arbitrary SrpServer state (name, K, challenge), client data, proof: any",
  asserts="result <=> proof == SHA-1(name | client data | challenge before | K) over 160 bits; exactly one 16-byte draw; challenge afterwards == that draw on both outcomes; name and K unchanged",
  bounds="one attempt from an arbitrary state (inductive)", assumes=[HASH_ASSUME, RNG_ASSUME])
H("C05", "client", "c05_client_values", timeout=1200, oracle_features=["cap128", "q4"],
  encodes=["client::SrpClient::calculate_reconnect_values", "srp_internal::calculate_reconnect_proof", "key::ReconnectData::randomized"],
  inputs="arbitrary SrpClient, server challenge", asserts="one fresh 16-byte draw per call, returned as challenge_data; proof == SHA-1(name | draw | server challenge | K)",
  bounds="two calls", assumes=[HASH_ASSUME, RNG_ASSUME])
H("C05", "server", "c05_roundtrip", timeout=1800, oracle_features=["cap128", "q8"],
  encodes=["SrpServer::verify_reconnection_attempt", "SrpClient::calculate_reconnect_values"],
  inputs="arbitrary shared session (name, K), arbitrary first challenge, arbitrary RNG draws",
  asserts="two legitimate reconnects in a row are accepted; replay of the first pair is refused when the challenge on offer differs (collision-free oracle assumed)",
  bounds="three attempts", assumes=[HASH_ASSUME, RNG_ASSUME, "explicit collision-freeness of the recorded SHA-1 queries"])

# ------------------------------------------------------------------------------------------------
# C17
# ------------------------------------------------------------------------------------------------
P("C17", outside=["file contents longer than 8 bytes in total (quick) / 24 bytes (thorough); in particular chunked processing of very large buffers is outside the bound",
                  "'any change changes the result' = HMAC/SHA-1 collision resistance"],
  assumptions=[HASH_ASSUME])
H("C17", "integrity", "c17_splits", timeout=1800, tiers=["quick"], oracle_features=["cap64", "q8"],
  encodes=["integrity::login_integrity_check_generic", "integrity::login_integrity_check_windows", "integrity::login_integrity_check_mac", "integrity::checksum", "integrity::finalise"],
  inputs="buffer [u8;8], len <= 8, four cut positions, salt [16], key [32]: any",
  asserts="generic == windows == mac == SHA-1(key | HMAC(salt, concatenation)) for every split incl. empty files",
  bounds="total length <= 8; unwind 42", assumes=[HASH_ASSUME])
H("C17", "integrity", "c17_splits_24", timeout=5400, tiers=["thorough"], oracle_features=["cap64", "q8"],
  encodes=["integrity::login_integrity_check_*"], inputs="buffer [u8;24], len <= 24, four cuts, salt, key: any",
  asserts="as c17_splits", bounds="total length <= 24; unwind 42", assumes=[HASH_ASSUME])
H("C17", "integrity", "c17_reconnect", timeout=600, oracle_features=["cap64", "q4"],
  encodes=["integrity::reconnect_integrity_check"], inputs="salt [16] any", asserts="== SHA-1(salt | 20 zero bytes)", bounds="-", assumes=[HASH_ASSUME])
# ------------------------------------------------------------------------------------------------
# C16
# ------------------------------------------------------------------------------------------------
P("C16", outside=["SHA-1 itself", "uniqueness of the mixed-radix representation of seed mod 10! (textbook; used to read c16_remap_* as a statement about seed mod 10!)"],
  assumptions=[HASH_ASSUME])
H("C16", "pin", "c16_remap_perm", timeout=900, encodes=["pin::remap_pin_grid"], inputs="seed u32 any",
  asserts="layout is a permutation of 0..9", bounds="all 2^32 seeds; unwind 12", assumes=[])
H("C16", "pin", "c16_remap_lehmer", timeout=1800, encodes=["pin::remap_pin_grid"], inputs="mixed-radix digits d0..d9 (d_k < 10-k) any; seed = their value (< 10!)",
  asserts="layout == factorial-base decode of the digits, for every residue modulo 10!", bounds="all 3,628,800 seeds below 10!; unwind 12", assumes=[])
H("C16", "pin", "c16_remap_periodic_q", timeout=3600, tiers=["thorough"], encodes=["pin::remap_pin_grid"],
  inputs="mixed-radix digits any; seed = q*10! + value for q = 1 and q = 1183 (concrete)",
  asserts="layout == factorial-base decode of the digits for seeds in [10!, 2*10!) and [1183*10!, 2^32): the same as for the residue", bounds="two of the 1184 quotient classes (the all-quotients query did not finish in 90 min); unwind 12", assumes=[])
H("C16", "pin", "c16_digits", timeout=2400, encodes=["pin::pin_to_bytes"], inputs="pin u32 any",
  asserts="digits are the decimal expansion, most significant first, no leading zero, <= 10 digits", bounds="all 2^32 PINs; unwind 12", assumes=[])
H("C16", "pin", "c16_hash_msg", timeout=1800, oracle_features=["cap64", "q16"], encodes=["pin::calculate_hash"],
  inputs="pin, seed, both salts: any", asserts="None <=> pin < 1000; else hash == SHA-1(client salt | SHA-1(server salt | ASCII positions of the digits in the layout))",
  bounds="all PINs x all seeds; unwind 22", assumes=[HASH_ASSUME, "remap_pin_grid and pin_to_bytes replaced by uninterpreted stubs with the consequences of their lemmas (permutation; <= 10 digits each <= 9; >= 4 digits <=> pin >= 1000)"])
H("C16", "pin", "c16_verify", timeout=1800, oracle_features=["cap64", "q4"], encodes=["pin::verify_client_pin_hash (calculate_hash uninterpreted)"],
  inputs="pin, seed, salts, presented hash: any", asserts="true <=> a hash exists and equals the presented one over 160 bits",
  bounds="-; unwind 22", assumes=[HASH_ASSUME])

MODULE_NEEDS.update({
    "server": ["normalized_string", "client", "srp_internal", "srp_internal_client"],
    "client": ["normalized_string", "server", "srp_internal", "srp_internal_client"],
    "srp_internal": ["normalized_string", "server", "client", "srp_internal_client"],
    "srp_internal_client": ["normalized_string", "server", "client", "srp_internal"],
})
STUB_ASSUME = "compositional: crate-internal callees are replaced by uninterpreted stubs of the same signature (consistency table); each stub's specification is the c03_* harness of the real function; the harness asserts that every stub was reached exactly once"
# ------------------------------------------------------------------------------------------------
# C03
# ------------------------------------------------------------------------------------------------
P("C03", outside=["the primitives themselves (SHA-1, modular exponentiation): uninterpreted", "PRECALCULATED_XOR_HASH == SHA1(N) xor SHA1([7]) and the primality of N are concrete facts checked natively in selftest",
                  "S = 0 is excluded here (C14)"],
  assumptions=[HASH_ASSUME, BIG_ASSUME, STUB_ASSUME])
_C03 = [
 ("srp_internal", "c03_x", ["cap64", "q4"], "calculate_x", "U, P (1..16 bytes each), salt: any", "x == H(salt | H(U ':' P))"),
 ("srp_internal", "c03_verifier", ["cap128", "q8", "b4"], "calculate_password_verifier", "U, P, salt any; x uninterpreted", "v == pad32(7^x mod N)"),
 ("srp_internal", "c03_b_server", ["b8"], "calculate_server_public_key, PublicKey::try_from_bigint", "v, b: any 32 bytes", "B == pad32((3*v + 7^b) mod N); refused only when 0"),
 ("srp_internal", "c03_u", ["cap64", "q4"], "calculate_u", "A, B valid keys any", "u == H(A | B)"),
 ("srp_internal", "c03_s_server", ["b8"], "calculate_S, From<Integer> for SKey", "A valid, v, u, b any", "S == pad32((A * v^u)^b mod N) for every value below N"),
 ("srp_internal", "c03_interleave", ["cap64", "q8"], "calculate_interleaved, SKey::as_equal_slice", "S: any 32 bytes != 0", "K == SHA_Interleave(S without low zero bytes, one more if odd)"),
 ("srp_internal", "c03_m1_builtin", ["cap192", "q4"], "calculate_client_proof", "U, K, A, B, salt any", "M1 == H(xor const | H(U) | salt | A | B | K)"),
 ("srp_internal", "c03_m2", ["cap128", "q4"], "calculate_server_proof", "A, M1, K any", "M2 == H(A | M1 | K)"),
 ("srp_internal", "c03_xor_custom", ["cap64", "q4"], "calculate_xor_hash", "N', g any", "== H(N') xor H([g])"),
 ("srp_internal", "c03_session_key", ["cap128", "q8"], "calculate_session_key", "A, B, v, b any; callees uninterpreted", "K == interleave(S(A, v, u(A,B), b))"),
 ("srp_internal_client", "c03_a_client", ["b4"], "calculate_client_public_key, PublicKey::client_try_from_bigint", "a, g, N' != 0 any", "A == pad32(g^a mod N'); refused only when 0"),
 ("srp_internal_client", "c03_s_client", ["b16"], "calculate_client_S", "B valid, x, a, u, g, N' != 0 any", "S == pad32((B - 3*g^x)^(a + u*x) mod N') incl. negative base"),
 ("srp_internal_client", "c03_m1_custom", ["cap192", "q8"], "calculate_client_proof_with_custom_value", "U, K, A, B, salt, N', g any", "M1 == H(H(N') xor H(g) | H(U) | salt | A | B | K)"),
 ("server", "c03_registration", ["cap128", "q8"], "SrpVerifier::{from_username_and_password, from_database_values, into_proof, accessors}", "U, P any; RNG draws any; callees uninterpreted", "salt, b fresh draws; v == v(U,P,salt); B == B(v,b); record survives export/import"),
 ("client", "c03_client_challenge", ["cap192", "q16"], "SrpClientChallenge::new", "U, P, g, N', B, salt any; a = RNG draw; callees uninterpreted", "A, K, M1 are the leaf functions applied to (a, announced g and N', B, salt, U, P)"),
]
for _m, _n, _of, _enc, _in, _as in _C03:
    H("C03", _m, _n, timeout=2400, oracle_features=_of, encodes=[_enc], inputs=_in, asserts=_as, bounds="fixed-width fields; names 1..16 bytes", assumes=[HASH_ASSUME, BIG_ASSUME])
# ------------------------------------------------------------------------------------------------
# C02
# ------------------------------------------------------------------------------------------------
P("C02", outside=["'another password or username yields another proof' needs SHA-1 collision resistance; what is decided is that M1/M2 are compared over all 160 bits against the value determined by the stored record and the exchanged keys"],
  assumptions=[HASH_ASSUME, STUB_ASSUME])
H("C02", "server", "c02_server_decision", timeout=2400, oracle_features=["cap192", "q8"],
  encodes=["server::SrpProof::{into_server, server_public_key, salt}", "key_wrapper!(Proof) PartialEq"],
  inputs="arbitrary SrpProof (name, B, salt, b, v), any valid A, any M1", asserts="Ok <=> M1 == M1(U, K(A,B,v,b), A, B, salt) over 160 bits; Ok carries M2(A,M1,K), K and the username; Err carries (M1, expected); no SrpServer on reject (type)",
  bounds="-", assumes=[STUB_ASSUME, RNG_ASSUME])
H("C02", "client", "c02_client_decision", timeout=2400, oracle_features=["cap128", "q4"],
  encodes=["client::SrpClientChallenge::{verify_server_proof, client_proof, client_public_key}"],
  inputs="arbitrary SrpClientChallenge, any M2", asserts="Ok <=> M2 == M2(A, M1, K) over 160 bits; Err carries both proofs", bounds="-", assumes=[STUB_ASSUME])

# ------------------------------------------------------------------------------------------------
# C15
# ------------------------------------------------------------------------------------------------
P("C15", outside=["statistical quality and non-repetition of ThreadRng (a CSPRNG can return anything; what is decided is that every documented random value IS a fresh full-width draw made during that call)",
                  "draws made on different threads (no concurrency in Kani); a deterministic generator (StdRng/SeedableRng) is modelled as a function of its seed and is not a fresh draw"],
  assumptions=[RNG_ASSUME, STUB_ASSUME])
H("C15", "server", "c03_registration", timeout=2400, oracle_features=["cap128", "q8"], encodes=["SrpVerifier::from_username_and_password", "SrpVerifier::into_proof", "key_new!(Salt)", "key_new!(PrivateKey)"],
  inputs="U, P any", asserts="salt and b are fresh 32-byte draws made during the call; B is computed from that b", bounds="-", assumes=[RNG_ASSUME, STUB_ASSUME])
H("C15", "client", "c03_client_challenge", timeout=2400, oracle_features=["cap192", "q16"], encodes=["SrpClientChallenge::new"],
  inputs="any", asserts="a is a fresh 32-byte draw made during the call; A is computed from that a", bounds="-", assumes=[RNG_ASSUME, STUB_ASSUME])
H("C15", "server", "c02_server_decision", timeout=2400, oracle_features=["cap192", "q8"], encodes=["SrpProof::into_server", "key_new!(ReconnectData)"],
  inputs="any", asserts="accepting a login draws a fresh 16-byte reconnect challenge, which is the one on offer", bounds="-", assumes=[RNG_ASSUME, STUB_ASSUME])
H("C15", "server", "c05_attempt", timeout=1200, oracle_features=["cap128", "q4"], encodes=["SrpServer::verify_reconnection_attempt", "ReconnectData::randomize_data"],
  inputs="any", asserts="every attempt, accepted or not, replaces the challenge by a fresh 16-byte draw", bounds="-", assumes=[RNG_ASSUME])
H("C15", "client", "c05_client_values", timeout=1200, oracle_features=["cap128", "q4"], encodes=["SrpClient::calculate_reconnect_values"],
  inputs="any", asserts="a fresh 16-byte client challenge per call", bounds="-", assumes=[RNG_ASSUME])
for _m in ["vanilla", "tbc", "wrath"]:
    H("C15", _m + "_header", "c06_%s_client_msg" % _m, timeout=1200, oracle_features=["cap128", "q8"], encodes=["%s_header::ProofSeed::new" % _m],
      inputs="any", asserts="the seed is a fresh 4-byte draw and is the value used", bounds="-", assumes=[RNG_ASSUME])
H("C15", "integrity", "c15_integrity_salt", timeout=600, encodes=["integrity::get_salt_value"], inputs="-", asserts="fresh 16-byte draw per call", bounds="two calls", assumes=[RNG_ASSUME])
H("C15", "pin", "c15_pin_generators", timeout=600, encodes=["pin::get_pin_salt", "pin::get_pin_grid_seed"], inputs="-", asserts="fresh 16-byte / 4-byte draw per call", bounds="two calls each", assumes=[RNG_ASSUME])

MODULE_NEEDS.update({"matrix_card": ["rc4"]})
# ------------------------------------------------------------------------------------------------
# C18
# ------------------------------------------------------------------------------------------------
P("C18", outside=["coordinate generation is checked for the concrete card shapes 2x2, 3x3 (all challenge counts) and 8x10 (up to 3 challenges), not for every shape up to 255 cells (symbolic dimensions ran out of memory in the design probe)",
                  "formatting of a cell's digits into a string by the printer is not executed (the chunk handed to the formatter is compared)", "MD5/HMAC-SHA1 uninterpreted; RC4 key schedule on a symbolic key out of reach"],
  assumptions=[HASH_ASSUME])
_MC = dict(features=["matrix-card"])
H("C18", "matrix_card", "c18_cells", timeout=1800, encodes=["MatrixCard::{get_number_at_coordinates, from_data, to_printer, get_matrix_card_size, width, height, digit_count, data}"],
  inputs="width, height >= 1 with width*height <= 255, digit_count 1..4, coordinates on the card: all any",
  asserts="cell(x,y) is the slice at offset (y*width+x)*digit_count of length digit_count == the (y*width+x)-th printed chunk; two cells never overlap; no panic",
  bounds="all card shapes up to 255 cells, 1..4 digits", assumes=[], **_MC)
H("C18", "matrix_card", "c18_from_data", timeout=900, encodes=["MatrixCard::from_data"], inputs="dimensions any, data length <= 64 any",
  asserts="accepted <=> length == digits*width*height", bounds="data <= 64 bytes", assumes=[], **_MC)
for _n, _b, _tiers in [("c18_coordinates_2x2", "2x2 card, counts 1..4 (enumerated), all 64-bit seeds", ["quick", "thorough"]), ("c18_coordinates_3x3", "3x3 card, counts 1..3 (enumerated), all 64-bit seeds", ["quick", "thorough"]),
                       ("c18_coordinates_8x10", "8x10 card, counts 1..2 (enumerated), all 64-bit seeds", ["quick", "thorough"]), ("c18_coordinates_3x3_full", "3x3 card, count 9 (every cell challenged), all 64-bit seeds", ["thorough"])]:
    H("C18", "matrix_card", _n, timeout=3600, tiers=_tiers, oracle_features=["cap64", "q4"], encodes=["matrix_card::generate_coordinates", "MatrixCardVerifier::get_matrix_coordinates"],
      inputs="challenge count, seed, two rounds 0..=255: any", asserts="round < count: Some(x<w, y<h), distinct rounds give distinct cells; otherwise None, no panic",
      bounds=_b, assumes=["verifier built directly from generate_coordinates (MD5/RC4 key schedule skipped)"], **_MC)
H("C15", "matrix_card", "c15_matrix_generators", timeout=900, encodes=["matrix_card::get_matrix_card_seed", "MatrixCard::new", "fill_matrix_card_values"],
  inputs="-", asserts="seed is a fresh 8-byte draw; each digit is its own fresh draw reduced into 0..=9", bounds="2x1 card with 2 digits", assumes=[RNG_ASSUME, "Uniform modelled as lo + draw % span"], **_MC)

MODULE_NEEDS.update({"": ["normalized_string", "server", "client", "srp_internal", "srp_internal_client"]})
# ------------------------------------------------------------------------------------------------
# C01
# ------------------------------------------------------------------------------------------------
LEMMA_L = "Lemma L (SRP-6 correctness in Z_N, mathematics, assumed): (A*v^u)^b == (B - 3*g^x)^(a + u*x) mod N for A = g^a, B = 3v + g^b, v = g^x; sanity-checked at toy width by z3/cvc5 in selftest"
LEMMA_M = "Lemma M (assumed): with the built-in group the built-in and the custom M1 functions hash the same message (follows from c03_m1_builtin, c03_m1_custom and PRECALCULATED_XOR_HASH == SHA1(N) xor SHA1([7]), the latter checked natively in selftest)"
P("C01", outside=["Lemma L beyond the toy bound; num-bigint and SHA-1 being correct", "the flow harness takes normalised credentials; that every spelling normalises identically is c13_case / c13_accept",
                  "the byte-level treatment of S (zero-byte classes, either sign of B - k*v) is decided where it happens: c03_interleave, c03_s_client, c03_s_server, c01_pad_roundtrip"],
  assumptions=[HASH_ASSUME, BIG_ASSUME, RNG_ASSUME, STUB_ASSUME, LEMMA_L, LEMMA_M, "the two documented 'generated public key is invalid' panics are excluded"])
H("C01", "", "c01_flow", timeout=5400, oracle_features=["cap192", "q32"],
  encodes=["SrpVerifier::{from_username_and_password, username, password_verifier, salt, from_database_values, into_proof}", "SrpProof::{server_public_key, salt, into_server}", "NormalizedString::new (re-import)",
           "PublicKey::from_le_bytes", "SrpClientChallenge::{new, client_public_key, client_proof, verify_server_proof}", "SrpServer::session_key", "SrpClient::session_key", "srp_internal::calculate_session_key"],
  inputs="name, password (normalised, 1..16 bytes each), salt / b / a (RNG draws): all any",
  asserts="register -> export -> re-import -> challenge -> client -> server accepts -> client accepts -> session keys byte-identical and equal to K(S)",
  bounds="credentials 1..16 bytes; leaves uninterpreted", assumes=[STUB_ASSUME, LEMMA_L, LEMMA_M, RNG_ASSUME])
H("C01", "key", "c01_pad_roundtrip", timeout=900, oracle_features=["b4"], encodes=["bigint::Integer::{from_bytes_le, to_padded_32_byte_array_le, to_bytes_le}", "From<Integer> for SKey", "key_bigint!"],
  inputs="any 32 bytes", asserts="all padded conversions are the identity on 32-byte little-endian encodings", bounds="unwind 66", assumes=[BIG_ASSUME])
H("C01", "normalized_string", "c13_case", timeout=1500, encodes=["NormalizedString::new"], inputs="every accepted string and every case variant",
  asserts="case variants normalise identically; normalising is idempotent", bounds="full", assumes=["from_utf8 stub"])
H("C01", "srp_internal", "c03_session_key", timeout=2400, oracle_features=["cap128", "q8"], encodes=["calculate_session_key"], inputs="any", asserts="K == interleave(S(A, v, u(A,B), b))", bounds="-", assumes=[STUB_ASSUME])
H("C01", "srp_internal", "c03_interleave", timeout=2400, oracle_features=["cap64", "q8"], encodes=["calculate_interleaved", "SKey::as_equal_slice"], inputs="S any != 0",
  asserts="both sides derive K with the same interleave for every zero-byte class", bounds="-", assumes=[HASH_ASSUME])
H("C01", "server", "c03_registration", timeout=2400, oracle_features=["cap128", "q8"], encodes=["SrpVerifier accessors, from_database_values, into_proof"], inputs="any",
  asserts="the account record survives export/import; accessors return what the constructor stored", bounds="-", assumes=[STUB_ASSUME])

# ------------------------------------------------------------------------------------------------
# C14: panic freedom. Rust's own panics (index/slice bounds, overflow, unwrap/expect, division by zero,
# explicit assert!/panic!) are checked as assertions in EVERY harness; C14 collects the harnesses whose inputs
# are exactly the peer-controlled bytes, over the full domain the peer can drive them to.
# ------------------------------------------------------------------------------------------------
P("C14", outside=["allocation failure", "the two documented 'self-generated public key is invalid' panics (excluded by assumption)",
                  "pointer-level memory-safety checks are switched off (the crate is forbid(unsafe_code)); all Rust panic checks stay on"],
  assumptions=[HASH_ASSUME, BIG_ASSUME + " - so S, A, B range over ALL values below the modulus, incl. 0, 1, N-1 and encodings with many zero bytes", STUB_ASSUME])
_C14 = [
 ("srp_internal", "c14_interleave_total", ["cap64", "q4"], "calculate_interleaved / SKey::as_equal_slice for ALL 32-byte secrets incl. 0 (client S is peer-controlled through B)"),
 ("srp_internal", "c03_s_server", ["b8"], "calculate_S for every valid A and every result below N"),
 ("srp_internal", "c03_session_key", ["cap128", "q8"], "calculate_session_key"),
 ("srp_internal", "c03_m1_builtin", ["cap192", "q4"], "calculate_client_proof"),
 ("srp_internal", "c03_m2", ["cap128", "q4"], "calculate_server_proof"),
 ("srp_internal", "c03_u", ["cap64", "q4"], "calculate_u"),
 ("srp_internal_client", "c03_s_client", ["b16"], "calculate_client_S for every valid B, any x, a, u, any announced group, every result below N incl. negative base"),
 ("srp_internal_client", "c03_m1_custom", ["cap192", "q8"], "calculate_client_proof_with_custom_value"),
 ("srp_internal_client", "c03_a_client", ["b4"], "calculate_client_public_key"),
 ("server", "c02_server_decision", ["cap192", "q8"], "SrpProof::into_server for every valid A and every M1"),
 ("server", "c05_attempt", ["cap128", "q4"], "SrpServer::verify_reconnection_attempt for every client data and proof"),
 ("client", "c02_client_decision", ["cap128", "q4"], "SrpClientChallenge::verify_server_proof for every M2"),
 ("client", "c03_client_challenge", ["cap192", "q16"], "SrpClientChallenge::new for every valid B, salt, group"),
 ("client", "c05_client_values", ["cap128", "q4"], "SrpClient::calculate_reconnect_values for every server challenge"),
 ("key", "c04_exact", [], "PublicKey::from_le_bytes for all 2^256 arrays"),
 ("key", "c01_pad_roundtrip", ["b4"], "fixed-size copies for every value below 2^256"),
 ("vanilla_header", "c06_vanilla_server_decision", ["cap128", "q8"], "vanilla into_server_header_crypto for every proof and seed"),
 ("tbc_header", "c06_tbc_server_decision", ["cap128", "q8"], "tbc into_server_header_crypto"),
 ("wrath_header", "c06_wrath_server_decision", ["cap128", "q8"], "wrath into_server_header_crypto"),
 ("vanilla_header", "c11_typed_helpers", [], "vanilla header decrypt entry points from arbitrary state on arbitrary bytes"),
 ("tbc_header", "c11_tbc_typed_helpers", [], "tbc header decrypt entry points"),
 ("wrath_header", "c11_wrath_server_header_dec", [], "wrath client: server-header decrypt entry points incl. both layouts, arbitrary bytes"),
 ("wrath_header", "c11_wrath_client_header_dec", [], "wrath server: client-header decrypt entry points, arbitrary bytes"),
 ("wrath_header", "c14_wrath_any_order", [], "wrath client: attempt / one-more-byte / decrypt in any order from an arbitrary state"),
]
for _m, _n, _of, _what in _C14:
    H("C14", _m, _n, timeout=2400, oracle_features=_of, encodes=[_what], inputs="all peer-controlled bytes symbolic", asserts="no reachable panic, overflow or out-of-bounds access (plus the functional assertions of the harness)",
      bounds="see the harness under its own property", assumes=[BIG_ASSUME])
H("C18", "matrix_card", "c18_proof_agreement", timeout=3600, oracle_features=["cap64", "q32"],
  encodes=["matrix_card::verify_matrix_card_hash", "MatrixCardVerifier::{new, get_matrix_coordinates, enter_value, into_proof}", "MatrixCard::get_number_at_coordinates"],
  inputs="2x2 card; (digits, challenges) = (2,2); seed, session key, card contents, position of one mistyped digit: any",
  asserts="proof of the printed digits at the challenged cells is accepted; a proof from a sequence with one digit changed is refused",
  bounds="2x2 card; RC4 keystream = uninterpreted function of MD5(seed | session key); generate_coordinates uninterpreted (distinct on-card cells)", assumes=[HASH_ASSUME, "Rc4::new / apply_keystream replaced by an uninterpreted keystream (same key => same keystream); explicit collision-freeness of the recorded HMAC queries"], **_MC)

# ------------------------------------------------------------------------------------------------
# MANIFEST texts
# ------------------------------------------------------------------------------------------------
_LT = {
 "C01": "Bounded model checking of the whole login exchange through the public API with the arithmetic/hash leaves uninterpreted and the SRP-6 identity (Lemma L) assumed over the specification terms, plus unit harnesses for padding, case handling and the interleave over ALL 32-byte secrets. Right level: the property is 'plumbing is correct for every input class', which the solver decides; the number theory is stated as an assumption.",
 "C02": "Bounded model checking of both accept/reject decisions over all 160 proof bits from arbitrary object states with callees uninterpreted; decides 'accepted iff equal to the value determined by the record and the exchanged keys' for every input.",
 "C03": "One harness per handshake function: the value produced equals the WoW-SRP6 formula as a term over uninterpreted SHA-1 / modpow / mul / add / rem for ALL arguments (incl. every zero-byte class of S and any announced group), plus caller harnesses showing the public API feeds the right values to the leaves.",
 "C04": "The acceptance set is decided exactly over all 2^256 encodings (SAT), for the public constructor, the server's own key and the client's key under any announced modulus.",
 "C05": "One reconnect attempt from an arbitrary session state is an inductive step covering all histories: accept iff proof matches the message over the current challenge; the challenge is a fresh draw afterwards on both outcomes.",
 "C06": "For each of the three expansion modules: the client's message layout and the server's 160-bit decision, all names/keys/seeds symbolic.",
 "C07": "Step lemma from every cipher state plus 'n-byte call = n steps' for all n <= 48 and a 260-byte call, which by induction gives all streams and chunkings.",
 "C08": "As C07 over the 20-byte key, plus key derivation = one HMAC(seed, session key) query for both halves.",
 "C09": "RC4 step lemma from every 256-byte state; call = steps within stated bounds; key derivation, drop-1024 and direction wiring by recording stubs. KSA for all keys is out of reach and stated as outside the claim.",
 "C10": "All 2^23 sizes x 2^16 opcodes from every paired cipher state (keystream abstracted as a symbolic pad), both client decode paths, inductive over header sequences.",
 "C11": "Every header entry point against the raw operation on the wire layout from arbitrary states; Read/Write wrappers under nondeterministic fragmentation, interruption and failure at every offset (<= 8 I/O calls).",
 "C12": "Frame property and split/clone/unsplit identities from arbitrary states; unsplit decided over all pairs of 40-byte keys. Thread schedules are argued from ownership with a syntactic guard (Kani has no concurrency).",
 "C13": "All UTF-8 strings up to 17 (thorough 24) bytes: accept set, normalisation, error kinds, constructor agreement, Eq/Ord/Hash/Display.",
 "C14": "Rust's panic conditions (bounds, overflow, unwrap, explicit asserts) are proof obligations in every harness; C14 collects the harnesses whose inputs are exactly the peer-controlled bytes over the full domain (size contracts only on arithmetic results).",
 "C15": "Dataflow: every documented random value equals, byte for byte, a fresh RNG draw of full width made during that call (RNG modelled as unconstrained). Statistical quality is outside any solver's reach and stated so.",
 "C16": "Layout is a permutation for all 2^32 seeds and equals the factorial-base decode for every residue mod 10!; digit extraction for all 2^32 PINs; hash message layout; 160-bit verification decision.",
 "C17": "All ways of splitting a buffer of <= 8 (thorough 24) bytes over the five file arguments give the same HMAC and SHA-1 queries as the single-buffer function.",
 "C18": "Cell addressing for ALL card shapes up to 255 cells x 1..4 digits (pointer identity with the printed chunk); coordinate distinctness and round bounds for three card shapes; client/server proof agreement on a 2x2 card with RC4 and coordinate generation uninterpreted.",
}
for _k, _v in _LT.items():
    if _k in PROPERTIES:
        PROPERTIES[_k]["level_text"] = _v
PROPERTIES["C19"] = {"not_applicable": "the srp-fast-math configuration is rug -> GMP (C code behind FFI): Kani cannot execute it symbolically, and gmp-mpfr-sys cannot even be built in this sandbox (no m4); comparing the two cfg arms against each other's contract would say nothing about GMP itself"}
H("C01", "client", "c01_client_s_to_k", timeout=3600, oracle_features=["cap192", "q16", "b16"], file="s2k", needs=["normalized_string"], encodes=["SrpClientChallenge::new", "calculate_client_S", "calculate_interleaved", "SKey::as_equal_slice"],
  inputs="U, P (<= 4 bytes), announced g and N' != 0, valid B, salt: any; a = RNG draw; x, u, A, M1 uninterpreted", asserts="client K == SHA_Interleave(pad32((B - 3*g^x)^(a + u*x) mod N')) for every non-zero S incl. high/low zero bytes",
  bounds="real S computation and real interleave in one harness", assumes=[HASH_ASSUME, BIG_ASSUME, STUB_ASSUME])
H("C01", "srp_internal", "c01_server_s_to_k", timeout=3600, oracle_features=["cap128", "q16", "b8"], encodes=["calculate_session_key", "calculate_S", "calculate_interleaved"],
  inputs="A, B valid, v, b any; u uninterpreted", asserts="server K == SHA_Interleave(pad32((A * v^u)^b mod N)) for every non-zero S",
  bounds="real S computation and real interleave in one harness", assumes=[HASH_ASSUME, BIG_ASSUME])

for _pre, _mod, _ps in [("c07", "vanilla_header", [0, 23]), ("c08", "tbc_header", [0, 11])]:
    for _p in _ps:
        H(_pre.upper(), _mod, "%s_call_long_p%d" % (_pre, _p), timeout=3600, tiers=["thorough"],
          encodes=["%s::encrypt::encrypt" % _mod, "%s::decrypt::decrypt" % _mod], inputs="key, previous, data [u8;260]: any; index = %d; n = 260" % _p,
          asserts="one 260-byte call equals 260 spec steps on both halves incl. the final position", bounds="n = 260 exactly, starting position %d; unwind 262" % _p, assumes=[])
H("C17", "integrity", "c17_large_inputs", timeout=1800, oracle_features=["cap64", "q8"],
  encodes=["integrity::login_integrity_check_generic", "integrity::login_integrity_check_windows", "integrity::login_integrity_check_mac"],
  inputs="total size <= 200 000 bytes, four cut positions, salt, key: any (buffer contents irrelevant: zero)",
  asserts="each function hands HMAC consecutive sub-slices that cover the whole input exactly once, in order (so chunked processing of large inputs loses or repeats nothing)",
  bounds="total size <= 200 000; unwind 42 (at most 41 chunks per file)", assumes=["HMAC model in span mode: message bytes are not copied, only their provenance is recorded"])

for _pre, _mod, _p, _n in [("c07", "vanilla_header", 23, 100), ("c08", "tbc_header", 11, 60)]:
    H(_pre.upper(), _mod, "%s_call_mid" % _pre, timeout=1800,
      encodes=["%s::encrypt::encrypt" % _mod, "%s::decrypt::decrypt" % _mod], inputs="key, previous, data: any; index = %d; n = %d (both concrete)" % (_p, _n),
      asserts="a %d-byte call from key position %d equals %d spec steps on both halves" % (_n, _p, _n), bounds="n = %d, starting position %d (several key laps, lap length does not divide the key length)" % (_n, _p), assumes=[])

H("C11", "wrath_header", "c11_wrath_read_server_eof", timeout=1800,
  encodes=["ClientDecrypterHalf::read_and_decrypt_server_header", "ClientCrypto::read_and_decrypt_server_header"],
  inputs="arbitrary client cipher state (pad window), five wire bytes, source length f = 0..=5, half or facade: any",
  asserts="complete headers == two-step calls with the exact number of bytes consumed; a source ending early yields Err and leaves the decrypter unchanged (f < 4) or as after the 4-byte attempt (f = 4, large header), completable later",
  bounds="byte-slice source (end of data at every offset); fragmentation/interruption for this entry point: thorough tier", assumes=[PAD_ASSUME])

H("C18", "matrix_card", "c18_proof_agreement_1x1", timeout=3600, oracle_features=["cap64", "q32"],
  encodes=["matrix_card::verify_matrix_card_hash", "MatrixCardVerifier::{new, get_matrix_coordinates, enter_value, into_proof}"],
  inputs="2x2 card, one digit per cell, one challenge; seed, session key, card contents: any",
  asserts="as c18_proof_agreement", bounds="2x2 card, (digits, challenges) = (1, 1)", assumes=[HASH_ASSUME, "Rc4 keystream and coordinate generation uninterpreted; explicit collision-freeness"], **_MC)
H("C03", "srp_internal_client", "c03_a_client_twice", timeout=2400, oracle_features=["b8"], encodes=["calculate_client_public_key", "LargeSafePrime::to_bigint", "Generator::to_bigint"],
  inputs="two arbitrary groups (g1, N1), (g2, N2) and private keys, used one after the other in one process", asserts="the second key is g2^a2 mod N2 (no state lingers from the first group)",
  bounds="history of two calls", assumes=[BIG_ASSUME])
H("C09", "wrath_header::inner_crypto", "c09_inner_stream", timeout=2400, oracle_features=["cap64", "q4"], file="stream", needs=["rc4"], encodes=["InnerCrypto::new", "InnerCrypto::apply", "Rc4::apply_keystream"],
  inputs="session key, direction constant, 263 data bytes, 256 pad bytes: any",
  asserts="calls of 250, 10 and 3 bytes after construction consume keystream bytes number 1024..1287, each once and in order",
  bounds="three calls; unwind 1030", assumes=["RC4 abstracted as a position-indexed pad in this harness (Rc4::new / apply_keystream stubbed); RC4 itself is c09_prga_step / c09_apply_*"])
