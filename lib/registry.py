"""Registry of properties and Kani harnesses (see DESIGN.md section 4).

Each harness entry:
  prop, module (Rust module path the harness file is injected into as child `verif_h`), name,
  tiers (default both), timeout (s; per tier via dict), functional (True: skip pointer checks; False:
  all default Kani checks), features (cargo features of wow_srp), oracle_features (capacity of the
  oracle tables), needs (other modules whose harness file must be injected too),
  encodes / inputs / asserts / bounds / assumes: documentation copied into the evidence file.
"""
import os
import re

HARNESSES = []
PROPERTIES = {}
# harness files that use helpers living in another module's harness file
MODULE_NEEDS = {
    "vanilla_header": ["normalized_string"],
    "tbc_header": ["normalized_string"],
}


def H(prop, module, name, **kw):
    d = dict(prop=prop, module=module, name=name)
    d.update(kw)
    HARNESSES.append(d)
    return d


def resolve(h, tier):
    """pick per-tier values for keys that are dicts {quick:.., thorough:..}"""
    out = {}
    for k, v in h.items():
        if isinstance(v, dict) and set(v.keys()) <= {"quick", "thorough"}:
            out[k] = v.get(tier, v.get("quick"))
        else:
            out[k] = v
    # tier-specific harness name suffix (Kani harness functions differ in their bounds)
    return out


def P(pid, **kw):
    PROPERTIES[pid] = kw


HASH_ASSUME = "SHA-1/HMAC-SHA1/MD5 are modelled as uninterpreted deterministic functions (verif_oracle); collision resistance is assumed wherever 'different message => different digest' is needed"
BIG_ASSUME = "num-bigint is modelled: exact byte conversion/equality, uninterpreted modpow/mul/add/sub/rem with size and sign contracts"
RNG_ASSUME = "rand is modelled: every draw is an unconstrained value recorded in a draw log"

# ------------------------------------------------------------------------------------------------
# C04
# ------------------------------------------------------------------------------------------------
P("C04",
  outside=["nothing within the 32-byte encoding space is excluded; the big-integer byte conversion itself is the model's (exact) conversion, validated against num-bigint in selftest"],
  assumptions=[BIG_ASSUME])
H("C04", "key", "c04_exact", timeout=300,
  encodes=["key::check_public_key", "key::PublicKey::from_le_bytes", "key::PublicKey::as_le_bytes"],
  inputs="key: [u8;32] = any (all 2^256 arrays)",
  asserts="Err(PublicKeyIsZero) <=> key==0; Err(PublicKeyModLargeSafePrimeIsZero) <=> key==N; otherwise Ok and as_le_bytes()==key",
  bounds="none beyond the fixed 32-byte width; unwind 34", assumes=[])
H("C04", "key", "c04_server_b", timeout=600, oracle_features=["b4"],
  encodes=["key::PublicKey::try_from_bigint", "bigint::Integer::to_bytes_le", "bigint::Integer::from_bytes_le"],
  inputs="i: 32 arbitrary bytes read as a big integer (every value < 2^256, every count of high zero bytes)",
  asserts="try_from_bigint(i) has the same Ok/Err kind as from_le_bytes(pad32(i)) and the same bytes",
  bounds="values < 2^256 (the only ones a reduced result can take); unwind 66", assumes=[BIG_ASSUME])
H("C04", "key", "c04_client_a", timeout=900, oracle_features=["b4"],
  encodes=["key::PublicKey::client_try_from_bigint", "bigint::Integer::is_zero", "bigint::Integer::mod_large_safe_prime_is_zero"],
  inputs="announced modulus N': any 32 bytes != 0; candidate A: any value <= N' (what g^a mod N' can be, plus N' itself)",
  asserts="Err(Zero) <=> A==0; Err(ModZero) <=> A==N'; otherwise Ok(pad32(A)) - independent of the built-in N",
  bounds="A <= N' < 2^256; unwind 66", assumes=[BIG_ASSUME])

# ------------------------------------------------------------------------------------------------
# C07
# ------------------------------------------------------------------------------------------------
P("C07",
  outside=["single calls longer than 300 bytes (thorough: 600) are covered only through the step lemma + induction argument, not executed"],
  assumptions=["induction over the one-step / one-call lemmas extends the bounded harnesses to streams of any length (argument in DESIGN.md section 4, C07)"])
H("C07", "vanilla_header", "c07_step", timeout=300,
  encodes=["vanilla_header::encrypt::encrypt", "vanilla_header::decrypt::decrypt", "EncrypterHalf::encrypt", "DecrypterHalf::decrypt"],
  inputs="key [u8;40], index<40, previous u8, byte u8: all any",
  asserts="one-byte call == recurrence c=(x^key[i])+prev, i'=(i+1)%40, prev'=c; decrypt is the exact inverse with the same next state; invariant index<40 preserved",
  bounds="one step from an arbitrary state (inductive)", assumes=[])
H("C07", "vanilla_header", "c07_call_dec", timeout=900,
  encodes=["vanilla_header::decrypt::decrypt", "DecrypterHalf::decrypt"],
  inputs="key, index<40, previous: any; n: any <= 48; data [u8;48] any",
  asserts="an n-byte decrypt call equals n spec steps; bytes beyond the slice untouched; n=0 changes nothing",
  bounds="n <= 48 bytes per call (symbolic n); unwind 50", assumes=[])
H("C07", "vanilla_header", "c07_call_enc", timeout=900,
  encodes=["vanilla_header::encrypt::encrypt", "EncrypterHalf::encrypt"],
  inputs="key, index<40, previous: any; n: any <= 48; data [u8;48] any",
  asserts="an n-byte encrypt call equals n spec steps (so any partition of a stream gives the same bytes); bytes beyond the slice untouched; n=0 changes nothing",
  bounds="n <= 48 bytes per call (symbolic n); unwind 50", assumes=[])
H("C07", "vanilla_header", "c07_call_long", timeout=1500,
  encodes=["vanilla_header::encrypt::encrypt", "vanilla_header::decrypt::decrypt"],
  inputs="key, previous, data [u8;260]: any; index = 39; n = 260",
  asserts="one 260-byte call equals 260 spec steps on both halves incl. the final position (index + length >= 256 wraps a u8 if mis-computed)",
  bounds="n = 260 exactly, starting position 39; unwind 262", assumes=[])
H("C07", "vanilla_header", "c07_split_call", timeout=600,
  encodes=["EncrypterHalf::encrypt", "DecrypterHalf::decrypt"],
  inputs="state any; n <= 8, cut, cut2 <= n any; data any",
  asserts="encrypt(data[..cut]); encrypt(data[cut..]) == encrypt(data) incl. empty pieces, same for decrypt; decrypt(encrypt(x)) == x from paired states with arbitrary different chunking on the two sides; states stay paired",
  bounds="n <= 8; unwind 42", assumes=[])
H("C07", "vanilla_header", "c07_init", timeout=300, oracle_features=["cap128", "q4"],
  encodes=["vanilla_header::HeaderCrypto::new", "EncrypterHalf::new", "DecrypterHalf::new", "ProofSeed::into_client_header_crypto", "ProofSeed::into_server_header_crypto"],
  inputs="session key [u8;40] any, name any (1..16), seeds any",
  asserts="halves obtained through the public constructors start at (key = raw session key, index 0, previous 0)",
  bounds="-", assumes=[HASH_ASSUME])

# ------------------------------------------------------------------------------------------------
# C08
# ------------------------------------------------------------------------------------------------
P("C08",
  outside=["HMAC-SHA1 itself (uninterpreted); single calls longer than 260 bytes are covered by the step lemma + induction argument only"],
  assumptions=[HASH_ASSUME, "induction over the one-step / one-call lemmas extends the bounded harnesses to streams of any length"])
H("C08", "tbc_header", "c08_step", timeout=300,
  encodes=["tbc_header::encrypt::encrypt", "tbc_header::decrypt::decrypt", "EncrypterHalf::encrypt", "DecrypterHalf::decrypt"],
  inputs="key [u8;20], index<20, previous u8, byte u8: all any",
  asserts="one-byte call == recurrence over the 20-byte key (position modulo 20); decrypt is the exact inverse with the same next state; empty calls change nothing",
  bounds="one step from an arbitrary state (inductive)", assumes=[])
H("C08", "tbc_header", "c08_call_enc", timeout=900,
  encodes=["tbc_header::encrypt::encrypt"], inputs="key, index<20, previous: any; n: any <= 48; data any",
  asserts="an n-byte encrypt call equals n spec steps; bytes beyond the slice untouched", bounds="n <= 48 (symbolic); unwind 50", assumes=[])
H("C08", "tbc_header", "c08_call_dec", timeout=900,
  encodes=["tbc_header::decrypt::decrypt"], inputs="key, index<20, previous: any; n: any <= 48; data any",
  asserts="an n-byte decrypt call equals n spec steps; bytes beyond the slice untouched", bounds="n <= 48 (symbolic); unwind 50", assumes=[])
H("C08", "tbc_header", "c08_call_long", timeout=1500,
  encodes=["tbc_header::encrypt::encrypt", "tbc_header::decrypt::decrypt"],
  inputs="key, previous, data [u8;260]: any; index = 19; n = 260",
  asserts="one 260-byte call equals 260 spec steps on both halves incl. the final position (index + length >= 256)",
  bounds="n = 260 exactly, starting position 19; unwind 262", assumes=[])
H("C08", "tbc_header", "c08_split_call", timeout=900,
  encodes=["EncrypterHalf::encrypt", "DecrypterHalf::decrypt"], inputs="state any; n <= 8, cut, cut2 <= n any; data any",
  asserts="two consecutive calls equal one call (incl. empty pieces); paired halves round-trip under different chunking and stay paired",
  bounds="n <= 8; unwind 22", assumes=[])
H("C08", "tbc_header", "c08_init", timeout=900, oracle_features=["cap128", "q16"],
  encodes=["tbc_header::encrypt::EncrypterHalf::new", "tbc_header::decrypt::DecrypterHalf::new", "tbc_header::HeaderCrypto::new", "ProofSeed::into_client_header_crypto", "ProofSeed::into_server_header_crypto"],
  inputs="session key [u8;40], name, seeds, proof: any",
  asserts="both halves' key == HMAC(16-byte TBC seed, 40-byte session key) (one query each, same query), index 0, previous 0; also through the public constructors",
  bounds="-", assumes=[HASH_ASSUME])

# ------------------------------------------------------------------------------------------------
# C13
# ------------------------------------------------------------------------------------------------
P("C13",
  outside=["strings longer than 24 bytes (thorough) / 17 bytes (quick): only len() is inspected for them, shown for 17..24",
           "core::str::from_utf8 is replaced by an equivalent byte-loop validator (Unicode table 3-7); core's own validator is not executed"],
  assumptions=["verif_oracle::from_utf8_model has the same accept set as core::str::from_utf8 (validated in selftest)"])
H("C13", "normalized_string", "c13_accept", timeout=1500, tiers=["quick"],
  encodes=["NormalizedString::new", "NormalizedString::as_ref"],
  inputs="bytes [u8;17] any, len <= 17 any, assumed well-formed UTF-8 (every scalar value at every position)",
  asserts="Ok <=> 1<=len<=16 and all bytes in 0x20..=0x7E; stored text == input with a-z upper-cased, zero padded; as_ref()==that; StringTooLong <=> len==0 or len>16; else CharacterNotAllowed(first offending scalar); no panic",
  bounds="all UTF-8 strings of <= 17 bytes; unwind 19", assumes=["from_utf8 stub"])
H("C13", "normalized_string", "c13_accept_24", timeout=5400, tiers=["thorough"],
  encodes=["NormalizedString::new", "NormalizedString::as_ref"],
  inputs="bytes [u8;24] any, len <= 24 any, assumed well-formed UTF-8",
  asserts="as c13_accept", bounds="all UTF-8 strings of <= 24 bytes; unwind 26", assumes=["from_utf8 stub"])
H("C13", "normalized_string", "c13_constructors", timeout=900,
  encodes=["NormalizedString::from_str", "NormalizedString::from_string", "TryFrom<&str>", "TryFrom<String>"],
  inputs="all UTF-8 strings of <= 4 bytes, plus one 17-byte ASCII string",
  asserts="all five constructors return the same Ok value / the same error kind and character",
  bounds="<= 4 bytes (the constructors delegate; the length is irrelevant to delegation); unwind 19", assumes=["from_utf8 stub"])
H("C13", "normalized_string", "c13_case", timeout=1500,
  encodes=["NormalizedString::new", "NormalizedString::as_ref", "PartialEq"],
  inputs="every accepted string (1..16 printable bytes) and every case variant (mask of 16 bits)",
  asserts="new(s) == new(case variant of s); new(new(s).as_ref()) == new(s)", bounds="full; unwind 18", assumes=["from_utf8 stub"])
H("C13", "normalized_string", "c13_relations", timeout=1500,
  encodes=["derive(PartialEq, Eq, Ord, PartialOrd, Hash) for NormalizedString"],
  inputs="two arbitrary values satisfying the representation invariant",
  asserts="==, cmp, partial_cmp agree with lexicographic comparison of the normalised texts; equal texts feed identical bytes to a Hasher",
  bounds="full; unwind 50", assumes=["from_utf8 stub"])
H("C13", "normalized_string", "c13_display", timeout=1500,
  encodes=["Display for NormalizedString"], inputs="arbitrary valid value",
  asserts="Display writes exactly the normalised text", bounds="full; unwind 18", assumes=["from_utf8 stub"])

# ------------------------------------------------------------------------------------------------
# C11 / C12 (vanilla part)
# ------------------------------------------------------------------------------------------------
IO_ASSUME = "Read/Write are nondeterministic stubs: arbitrary fragmentation, Interrupted, 8 error kinds, Ok(0), at most 8 calls per operation; std's read_exact/write_all are executed, not modelled"
P("C11",
  outside=["more than 8 read/write calls per header operation", "Wrath keystream abstracted as a symbolic one-time pad (licensed by C09)"],
  assumptions=[IO_ASSUME])
P("C12",
  outside=["thread schedules are not executed (Kani has no concurrency): covered by the ownership argument plus the syntactic no-shared-state guard"],
  assumptions=["halves are distinct owned values; the crate contains no unsafe, static mut, Cell/RefCell, atomics, locks or thread_local (checked syntactically on every run)"])
for _h, _t in [("c11_typed_helpers", 900), ("c11_read_client", 1800), ("c11_read_server", 1800), ("c11_write_client", 1800), ("c11_write_server", 1800),
               ("c11_read_client_facade", 1800), ("c11_read_server_facade", 1800), ("c11_write_client_facade", 1800), ("c11_write_server_facade", 1800)]:
    H("C11", "vanilla_header", _h, timeout=_t,
      encodes=["vanilla_header::{EncrypterHalf,DecrypterHalf,HeaderCrypto}::* header entry points", "ServerHeader::from_array", "ClientHeader::from_array"],
      inputs="arbitrary combined cipher state; arbitrary size/opcode or wire bytes; nondeterministic reader/writer",
      asserts="typed helper / facade / accessor / Read / Write wrapper == raw operation on the wire layout (size BE, opcode LE) with the same post-state; failed read leaves the decrypter unchanged; failing writer reported",
      bounds="<= 8 I/O calls; unwind 42", assumes=[IO_ASSUME])
for _h in ["c12_frame", "c12_split_unsplit"]:
    H("C12", "vanilla_header", _h, timeout=900,
      encodes=["vanilla_header::HeaderCrypto::{encrypt,decrypt,split,clone}", "EncrypterHalf::{unsplit,is_pair_of}", "DecrypterHalf::is_pair_of"],
      inputs="arbitrary combined state / arbitrary pair of halves (all pairs of 40-byte keys)",
      asserts="frame property per direction; split/clone/unsplit identities; unsplit Ok <=> all 40 key bytes equal, halves unchanged",
      bounds="chunks <= 6 bytes (chunk generality is C07); unwind 42", assumes=[])
