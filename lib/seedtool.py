#!/usr/bin/env python3
"""Seeded-change bookkeeping.

  seedtool.py confirm <PROP> <A|B> [--features f]   confirm a sub-agent's change from /tmp/mut/out/<PROP>/ in a scratch
                                     worktree (suite passes with it, demo fails with it, demo passes without it)
                                     and store it as /verif/seeded/<PROP>-<A|B>/
  seedtool.py try <PROP>-<A|B> [PROP2 ...] [--tier t]   run ./check for the property (and optional others) against a
                                     scratch copy of /repo with the change applied; evidence goes to a scratch dir
"""
import json, os, shutil, subprocess, sys, time

VERIF = os.path.dirname(os.path.dirname(os.path.abspath(__file__)))
REPO = "/repo"


def sh(cmd, cwd=None, timeout=3600):
    p = subprocess.run(cmd, shell=True, cwd=cwd, stdout=subprocess.PIPE, stderr=subprocess.STDOUT, text=True, timeout=timeout)
    return p.returncode, p.stdout


def confirm(prop, ab, feats):
    src = os.path.join(os.environ.get("SEED_SRC", "/tmp/mut/out"), prop)
    wt = "/tmp/seedwt-%s-%s" % (prop, ab)
    sh("git -C %s worktree remove --force %s" % (REPO, wt))
    rc, out = sh("git -C %s worktree add --detach %s HEAD" % (REPO, wt))
    assert rc == 0, out
    meta = {"property": prop, "variant": ab, "repo_head": sh("git -C %s rev-parse --short HEAD" % REPO)[1].strip(), "ran": []}
    ok = False
    try:
        base = os.path.join(src, "base.patch.diff")
        if os.path.exists(base):
            rc, out = sh("git apply --check %s" % base, cwd=wt)
            if rc == 0:
                sh("git apply %s" % base, cwd=wt)
                meta["ran"].append("applied base.patch.diff")
            else:
                meta["ran"].append("base.patch.diff does not apply (already repaired in /repo)")
        patch = os.path.join(src, "%s.patch.diff" % ab)
        rc, out = sh("git apply --check %s" % patch, cwd=wt)
        if rc != 0:
            rc, out = sh("git apply --3way %s" % patch, cwd=wt)
            assert rc == 0, "patch does not apply: " + out
        else:
            sh("git apply %s" % patch, cwd=wt)
        fflag = (" --features " + feats) if feats else ""
        # 1. existing suite with the change
        rc, out = sh("cargo test --offline%s 2>&1 | grep -E 'test result|error(\\[|:)' " % fflag, cwd=wt)
        meta["ran"].append({"cmd": "cargo test --offline%s (change applied)" % fflag, "out": out.strip().splitlines()})
        suite_ok = "FAILED" not in out and "error" not in out and "test result: ok" in out
        # 2. demo with the change
        demo = os.path.join(src, "%s.demo.rs" % ab)
        demopatch = os.path.join(src, "%s.demo.patch.diff" % ab)
        if os.path.exists(demopatch):
            rc, o2 = sh("git apply %s" % demopatch, cwd=wt)
            assert rc == 0, o2
            first = open(demo).read()[:600]
            # the agent says where it goes; default src/demo_b.rs style
            import re
            m = re.search(r"(src/\S+\.rs)", first)
            target = m.group(1) if m else "src/demo_%s.rs" % ab.lower()
            shutil.copy(demo, os.path.join(wt, target))
            democmd = "cargo test --offline%s --lib demo_%s" % (fflag, ab.lower())
        else:
            os.makedirs(os.path.join(wt, "tests"), exist_ok=True)
            shutil.copy(demo, os.path.join(wt, "tests", "demo_%s.rs" % ab))
            democmd = "cargo test --offline%s --test demo_%s" % (fflag, ab)
        rc1, out1 = sh(democmd + " 2>&1 | grep -E 'test result|error(\\[|:)' | head -8", cwd=wt)
        meta["ran"].append({"cmd": democmd + " (change applied)", "out": out1.strip().splitlines()})
        fails_with = "FAILED" in out1
        # 3. demo without the change
        sh("git apply -R %s" % patch, cwd=wt)
        rc2, out2 = sh(democmd + " 2>&1 | grep -E 'test result|error(\\[|:)' | head -8", cwd=wt)
        meta["ran"].append({"cmd": democmd + " (change reverted)", "out": out2.strip().splitlines()})
        passes_without = "FAILED" not in out2 and "test result: ok" in out2 and "error" not in out2
        ok = suite_ok and fails_with and passes_without
        meta["confirmed"] = {"suite_passes_with_change": suite_ok, "demo_fails_with_change": fails_with,
                             "demo_passes_without_change": passes_without}
        mt = os.path.join(src, "%s.meta.txt" % ab)
        meta["needs_to_manifest"] = open(mt).read() if os.path.exists(mt) else ""
        if ok:
            dst = os.path.join(VERIF, "seeded", "%s-%s" % (prop, ab))
            os.makedirs(dst, exist_ok=True)
            shutil.copy(patch, os.path.join(dst, "patch.diff"))
            shutil.copy(demo, os.path.join(dst, "demo.rs"))
            if os.path.exists(demopatch):
                shutil.copy(demopatch, os.path.join(dst, "demo.patch.diff"))
            if os.path.exists(base):
                shutil.copy(base, os.path.join(dst, "base.patch.diff"))
            meta["features"] = feats
            json.dump(meta, open(os.path.join(dst, "meta.json"), "w"), indent=1)
    finally:
        sh("git -C %s worktree remove --force %s" % (REPO, wt))
        sh("git -C %s worktree prune" % REPO)
        shutil.rmtree(wt, ignore_errors=True)
    print("%s-%s confirmed=%s %s" % (prop, ab, ok, json.dumps(meta.get("confirmed"))))
    return ok


def trymut(seed_id, props, tier):
    d = os.path.join(VERIF, "seeded", seed_id)
    meta = json.load(open(os.path.join(d, "meta.json")))
    copy = "/tmp/seedrepo-%s" % seed_id
    shutil.rmtree(copy, ignore_errors=True)
    sh("rsync -a --exclude target --exclude .git %s/ %s/" % (REPO, copy))
    sh("git init -q . && git add -A . && git -c user.email=a@b -c user.name=x commit -qm base", cwd=copy)
    rc, out = sh("git apply %s" % os.path.join(d, "patch.diff"), cwd=copy)
    if rc != 0:
        rc, out = sh("git apply --3way %s" % os.path.join(d, "patch.diff"), cwd=copy)
    assert rc == 0, "patch does not apply on current /repo: " + out
    evd = "/tmp/seedev-%s" % seed_id
    os.makedirs(evd, exist_ok=True)
    res = {}
    for p in props:
        t0 = time.time()
        env = "VERIF_REPO=%s VERIF_EVIDENCE_DIR=%s VERIF_REPLAY_DIR=%s VERIF_LOG_DIR=%s VERIF_SCRATCH=/tmp/verif-scratch-%s" % (copy, evd, evd, evd, seed_id)
        rc, out = sh("%s %s/check %s --tier %s" % (env, VERIF, p, tier), timeout=4 * 3600)
        lines = [l for l in out.splitlines() if l.startswith(("VIOLATION", "INCONCLUSIVE", "KNOWN", "[check]  failed"))]
        res[p] = {"exit": rc, "wall_s": round(time.time() - t0), "lines": lines[:12]}
        print(seed_id, p, "exit=%d" % rc, "wall=%ds" % (time.time() - t0))
        for l in lines[:12]:
            print("   ", l[:220])
    shutil.rmtree(copy, ignore_errors=True)
    shutil.rmtree(evd, ignore_errors=True)
    meta.setdefault("detection", {})[tier] = res
    json.dump(meta, open(os.path.join(d, "meta.json"), "w"), indent=1)


if __name__ == "__main__":
    a = sys.argv[1:]
    if a[0] == "confirm":
        feats = a[a.index("--features") + 1] if "--features" in a else ""
        sys.exit(0 if confirm(a[1], a[2], feats) else 1)
    if a[0] == "try":
        tier = a[a.index("--tier") + 1] if "--tier" in a else "quick"
        rest = [x for i, x in enumerate(a[1:]) if x != "--tier" and (i == 0 or a[i] != "--tier")]
        sid = rest[0]
        props = rest[1:] or [sid.split("-")[0]]
        trymut(sid, props, tier)
