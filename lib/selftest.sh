#!/bin/sh
# Translator validation (not part of any verdict): models vs. the real crates, constants, Lemma L sanity.
set -e
cd "$(dirname "$0")/../selftest"
T=${VERIF_SCRATCH:-/tmp/verif-scratch}/selftest-target
CARGO_NET_OFFLINE=true cargo run --offline --release --target-dir "$T" 2>&1 | tail -3
rm -rf "$T"
cd ../smt && python3-vt lemma_srp.py
