#!/bin/sh
# Convenience: run a list of checks sequentially, logs under /tmp/run-<id>.log (not used by MANIFEST).
cd "$(dirname "$0")/.."
TIER=${VERIF_TIER:-quick}
for p in "$@"; do
  ./check "$p" --tier "$TIER" --jobs ${JOBS:-12} > /tmp/run-$p.log 2>&1
  echo "$p exit=$?" >> /tmp/run-summary.log
done
echo ALLDONE >> /tmp/run-summary.log
