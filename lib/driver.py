#!/usr/bin/env python3
"""Driver for the solver-based checks of wow_srp (see /verif/DESIGN.md).

Usage: ./check <PROPERTY_ID> [--tier quick|thorough] [--harness NAME ...] [--keep] [--jobs N]
       ./check <PROPERTY_ID> --replay <replay.json>
       ./check selftest | list

Exit codes: 0 = every obligation of the property was discharged by the solver on /repo's current
working tree (known findings are printed as KNOWN-FINDING lines), 1 = a violation that is not a listed
known finding was found AND reproduced by concrete playback (a `VIOLATION property=.. replay=..` line is
printed), 2 = inconclusive (time-out, out of memory, build failure, unwinding bound too small, vacuous
harness, or a counterexample that did not reproduce).
"""
import concurrent.futures as cf
import json
import os
import re
import shutil
import signal
import subprocess
import sys
import time

VERIF = os.path.dirname(os.path.dirname(os.path.abspath(__file__)))
REPO = os.environ.get("VERIF_REPO", "/repo")
SCRATCH_ROOT = os.environ.get("VERIF_SCRATCH", "/tmp/verif-scratch")
sys.path.insert(0, os.path.join(VERIF, "lib"))
import registry  # noqa: E402

EVID_DIR = os.environ.get("VERIF_EVIDENCE_DIR", os.path.join(VERIF, "evidence"))
REPLAY_DIR = os.environ.get("VERIF_REPLAY_DIR", os.path.join(VERIF, "replays"))
LOG_DIR = os.environ.get("VERIF_LOG_DIR", os.path.join(VERIF, "logs"))
MEM_KB = int(os.environ.get("VERIF_MEM_GB", "20")) * 1024 * 1024

# --no-assertion-reach-checks: Kani's per-assertion reachability covers cost one SAT call plus one trace each
# (measured: 1140 s -> 320 s on c01_server_s_to_k); vacuity is guarded by the explicit kani::cover! witnesses
# and the stub-reached counters of every harness instead.
FUNC_FLAGS = ["-Z", "unstable-options", "--no-memory-safety-checks", "--no-undefined-function-checks",
              "--no-assertion-reach-checks"]


def log(msg):
    print(msg, flush=True)


# ------------------------------------------------------------------------------------------------
# scratch copy + injection
# ------------------------------------------------------------------------------------------------

MODEL_PATCH = """
[target.'cfg(kani)'.dependencies.verif_oracle]
path = "{models}/oracle"
{oracle_features}

[patch.crates-io]
sha-1 = {{ path = "{models}/sha1" }}
hmac = {{ path = "{models}/hmac" }}
md5 = {{ path = "{models}/md5" }}
num-bigint = {{ path = "{models}/bigint" }}
rand = {{ path = "{models}/rand" }}
"""


def module_src_file(crate, module):
    """module 'key' -> src/key.rs ; 'vanilla_header' -> src/vanilla_header/mod.rs ;
    'vanilla_header::encrypt' -> src/vanilla_header/encrypt.rs ; '' -> src/lib.rs"""
    if module == "":
        return os.path.join(crate, "src", "lib.rs"), os.path.join(crate, "src")
    parts = module.split("::")
    base = os.path.join(crate, "src", *parts)
    if os.path.isfile(base + ".rs"):
        return base + ".rs", base
    if os.path.isfile(os.path.join(base, "mod.rs")):
        return os.path.join(base, "mod.rs"), base
    raise FileNotFoundError("module %s not found in %s" % (module, crate))


def make_scratch(h, tag):
    root = os.path.join(SCRATCH_ROOT, "%d-%s" % (os.getpid(), tag))
    shutil.rmtree(root, ignore_errors=True)
    os.makedirs(root)
    crate = os.path.join(root, "crate")
    subprocess.run(["rsync", "-a", "--exclude", "target", "--exclude", ".git", "--exclude", "benches",
                    REPO + "/", crate + "/"], check=True)
    # Cargo.toml: drop bench + criterion, add models
    ct = open(os.path.join(crate, "Cargo.toml")).read()
    ct = re.sub(r"\[dev-dependencies\.criterion\][^\[]*", "", ct)
    ct = re.sub(r"\[\[bench\]\][^\[]*", "", ct)
    feats = h.get("oracle_features", [])
    of = "features = [%s]" % ", ".join('"%s"' % f for f in feats) if feats else ""
    ct += MODEL_PATCH.format(models=os.path.join(VERIF, "models"), oracle_features=of)
    open(os.path.join(crate, "Cargo.toml"), "w").write(ct)
    os.makedirs(os.path.join(crate, ".cargo"), exist_ok=True)
    open(os.path.join(crate, ".cargo", "config.toml"), "w").write("[net]\noffline = true\n")
    # inject harness modules (copied, so that concrete playback can write next to them)
    mods = [h["module"]] + list(h.get("needs", []))
    if h.get("file"):
        # self-contained harness file: <module>.<variant>.rs injected as child module verif_<variant>; it needs only
        # the helper modules it lists itself, not the module's main harness file
        mods = list(h.get("needs", []))
    k = 0
    while k < len(mods):  # transitive closure over module-level needs
        for m2 in registry.MODULE_NEEDS.get(mods[k], []):
            if m2 not in mods:
                mods.append(m2)
        k += 1
    for m in mods:
        src, moddir = module_src_file(crate, m)
        os.makedirs(moddir, exist_ok=True)
        hfile = os.path.join(VERIF, "harness", (m.replace("::", "__") or "lib") + ".rs")
        shutil.copy(hfile, os.path.join(moddir, "verif_h.rs"))
        with open(src, "a") as f:
            f.write("\n#[cfg(kani)]\npub(crate) mod verif_h;\n")
    if h.get("file"):
        m = h["module"]
        src, moddir = module_src_file(crate, m)
        os.makedirs(moddir, exist_ok=True)
        hfile = os.path.join(VERIF, "harness", "%s.%s.rs" % ((m.replace("::", "__") or "lib"), h["file"]))
        shutil.copy(hfile, os.path.join(moddir, "verif_%s.rs" % h["file"]))
        with open(src, "a") as f:
            f.write("\n#[cfg(kani)]\npub(crate) mod verif_%s;\n" % h["file"])
    return root, crate


def harness_path(h):
    m = h["module"]
    child = "verif_%s" % h["file"] if h.get("file") else "verif_h"
    return ("%s::%s::%s" % (m, child, h["name"])) if m else ("%s::%s" % (child, h["name"]))


# ------------------------------------------------------------------------------------------------
# running kani
# ------------------------------------------------------------------------------------------------

def run_group(cmd, cwd, timeout, logf, env=None, mem_kb=None):
    """Run cmd in its own process group under a memory limit; kill the whole group on timeout."""
    e = dict(os.environ)
    e["CARGO_NET_OFFLINE"] = "true"
    e.pop("RUSTFLAGS", None)
    if env:
        e.update(env)
    shell = "ulimit -v %d; exec %s" % (mem_kb or MEM_KB, " ".join("'%s'" % c.replace("'", "'\\''") for c in cmd))
    t0 = time.time()
    with open(logf, "w") as lf:
        p = subprocess.Popen(["bash", "-c", shell], cwd=cwd, stdout=lf, stderr=subprocess.STDOUT,
                             env=e, start_new_session=True)
        try:
            rc = p.wait(timeout=timeout)
            timed_out = False
        except subprocess.TimeoutExpired:
            timed_out = True
            rc = -9
        finally:
            try:
                os.killpg(p.pid, signal.SIGKILL)
            except ProcessLookupError:
                pass
            p.wait()
    return rc, timed_out, time.time() - t0


NOISE = re.compile(r"^(Unwinding loop|aborting path|Not unwinding)")


def parse_log(path):
    r = {"verdict": None, "failed": [], "covers": {}, "covers_total": None, "covers_sat": None,
         "symex_s": None, "solver_s": 0.0, "vccs": None, "vccs_remaining": None, "vars": None,
         "clauses": None, "steps": None, "checks_total": None, "checks_failed": None,
         "stubs": [], "error": None, "unwind_fail": False, "playback_tests": []}
    cur_check = None
    cur_desc = None
    try:
        lines = open(path, errors="replace").read().splitlines()
    except FileNotFoundError:
        r["error"] = "no log"
        return r
    in_test = False
    test_buf = []
    for ln in lines:
        if NOISE.match(ln):
            continue
        m = re.match(r"^Check \d+: (.*)$", ln)
        if m:
            cur_check = m.group(1)
            continue
        m = re.match(r"^\s+- Status: (\w+)", ln)
        if m and cur_check:
            st = m.group(1)
            r.setdefault("_st", {})[cur_check] = st
            continue
        m = re.match(r'^\s+- Description: "(.*)"$', ln)
        if m and cur_check:
            r.setdefault("_desc", {})[cur_check] = m.group(1)
            continue
        m = re.match(r"^Runtime Symex: ([\d.e+-]+)s", ln)
        if m:
            r["symex_s"] = float(m.group(1))
        m = re.match(r"^Runtime decision procedure: ([\d.e+-]+)s", ln)
        if m:
            r["solver_s"] += float(m.group(1))
        m = re.match(r"^size of program expression: (\d+) steps", ln)
        if m:
            r["steps"] = int(m.group(1))
        m = re.match(r"^Generated (\d+) VCC\(s\), (\d+) remaining", ln)
        if m:
            r["vccs"], r["vccs_remaining"] = int(m.group(1)), int(m.group(2))
        m = re.match(r"^(\d+) variables, (\d+) clauses", ln)
        if m and r["vars"] is None:
            r["vars"], r["clauses"] = int(m.group(1)), int(m.group(2))
        m = re.match(r"^ \*\* (\d+) of (\d+) failed", ln)
        if m:
            r["checks_failed"], r["checks_total"] = int(m.group(1)), int(m.group(2))
        m = re.match(r"^ \*\* (\d+) of (\d+) cover properties satisfied", ln)
        if m:
            r["covers_sat"], r["covers_total"] = int(m.group(1)), int(m.group(2))
        m = re.match(r'^Failed Checks: (.*)$', ln)
        if m:
            r["failed"].append(m.group(1).strip().strip('"'))
        m = re.match(r"^VERIFICATION:- (\w+)", ln)
        if m:
            r["verdict"] = m.group(1)
        m = re.match(r"^\s*- Stub: (.*)$", ln)
        if m:
            r["stubs"].append(m.group(1))
        if "unwinding assertion" in ln:
            pass
        if ln.startswith("error") and r["error"] is None and "Failed to match" not in ln:
            r["error"] = ln[:300]
        if "Failed to match the following harness" in ln:
            r["error"] = "harness not found"
        if ln.startswith("```"):
            if in_test:
                r["playback_tests"].append("\n".join(test_buf))
                test_buf = []
            in_test = not in_test
            continue
        if in_test:
            test_buf.append(ln)
    st = r.pop("_st", {})
    desc = r.pop("_desc", {})
    r["user_asserts_proved"] = 0
    for c, s in st.items():
        d = desc.get(c, "")
        if s == "SUCCESS" and ".assertion." in c and re.match(r"^\"?C\d\d", d):
            r["user_asserts_proved"] += 1
        if ".cover." in c or d.startswith("cover condition") or s in ("SATISFIED", "UNSATISFIABLE"):
            r["covers"][d or c] = s
        if s == "FAILURE" and "unwinding assertion" in d:
            r["unwind_fail"] = True
    if any("unwinding assertion" in f for f in r["failed"]):
        r["unwind_fail"] = True
    return r


def kani_cmd(h, extra=(), with_playback=False):
    cmd = ["cargo", "kani", "--harness", harness_path(h), "--exact", "-Z", "stubbing"]
    if with_playback:
        # only on the second run of a failing harness: traces make CBMC and kani-driver 3-4x slower
        cmd += ["-Z", "concrete-playback", "--concrete-playback=print"]
    if h.get("functional", True):
        cmd += FUNC_FLAGS
    if h.get("features"):
        cmd += ["--features", ",".join(h["features"])]
    cmd += list(h.get("kani_args", []))
    if os.environ.get("VERIF_COMPILE_ONLY"):
        cmd += ["--only-codegen"]
    cmd += list(extra)
    return cmd


def run_harness(h, keep=False, logdir=None):
    tag = h["name"]
    res = {"harness": h["name"], "module": h["module"], "status": "INCONCLUSIVE", "reason": None}
    try:
        root, crate = make_scratch(h, tag)
    except Exception as e:  # injection failed (module missing after a refactor)
        res["reason"] = "injection failed: %s" % e
        return res
    logf = os.path.join(logdir, h["name"] + ".log")
    try:
        rc, to, wall = run_group(kani_cmd(h), crate, h.get("timeout", 600), logf)
        p = parse_log(logf)
        res.update({k: p[k] for k in ("symex_s", "solver_s", "vccs", "vccs_remaining", "vars", "clauses",
                                      "steps", "checks_total", "checks_failed", "covers_total",
                                      "covers_sat", "failed", "stubs", "user_asserts_proved")})
        res["wall_s"] = round(wall, 1)
        res["covers"] = p["covers"]
        if to:
            res["reason"] = "timeout after %ds" % h.get("timeout", 600)
        elif p["verdict"] == "SUCCESSFUL":
            unsat = [c for c, s in p["covers"].items() if s != "SATISFIED"]
            if unsat:
                res["reason"] = "vacuity witness not satisfied: %s" % "; ".join(unsat)
            elif p["covers_total"] in (None, 0) and not h.get("no_covers"):
                res["reason"] = "harness has no satisfied vacuity witness"
            else:
                res["status"] = "PASS"
        elif p["verdict"] == "FAILED":
            real = [f for f in p["failed"] if "unwinding assertion" not in f]
            framework = [f for f in real if f.startswith(("verif_oracle:", "bigint model:", "harness:"))]
            if not real and not p["unwind_fail"]:
                res["reason"] = "solver failure (out of memory or CBMC error), no property decided"
            elif not real:
                res["reason"] = "unwinding bound too small (unwinding assertion failed)"
            elif framework:
                # a capacity / structural assertion of the framework itself, not a property of the code
                res["reason"] = "framework bound exceeded: %s" % "; ".join(framework)
            else:
                res["status"] = "CANDIDATE"
                logf2 = os.path.join(logdir, h["name"] + ".cex.log")
                run_group(kani_cmd(h, with_playback=True), crate, 3 * h.get("timeout", 600), logf2, mem_kb=2 * MEM_KB)
                res["playback_tests"] = parse_log(logf2)["playback_tests"]
                res["_crate"] = crate
                res["_root"] = root
                keep = True
        else:
            res["reason"] = p["error"] or ("no verdict (rc=%s; out of memory or crash)" % rc)
    finally:
        if not keep:
            shutil.rmtree(root, ignore_errors=True)
    return res


# ------------------------------------------------------------------------------------------------
# replay: concrete playback of the counterexample against the natively compiled real code
# ------------------------------------------------------------------------------------------------

def decode_vals(test_src):
    vals = []
    for m in re.finditer(r"vec!\[([\d,\s]*)\]", test_src.split("concrete_vals", 1)[-1]):
        body = m.group(1).strip()
        if body == "":
            vals.append([])
        else:
            vals.append([int(x) for x in body.split(",") if x.strip()])
    return vals


def playback(h, crate, tests, logdir, profile_release=False, write=True):
    """Append the generated tests to the injected harness file and run them natively.
    Returns list of (test_name, reproduced: bool, panic message)."""
    _, moddir = module_src_file(crate, h["module"])
    hf = os.path.join(moddir, ("verif_%s.rs" % h["file"]) if h.get("file") else "verif_h.rs")
    names = []
    with open(hf, "a") as f:
        for t in tests:
            m = re.search(r"fn (kani_concrete_playback_\w+)\(", t)
            if not m or m.group(1) in names:
                continue
            names.append(m.group(1))
            if write:
                f.write("\n" + t + "\n")
    cmd = ["cargo", "kani", "playback", "-Z", "concrete-playback"]
    if h.get("features"):
        cmd += ["--features", ",".join(h["features"])]
    if profile_release:
        cmd += ["--release"]
    cmd += ["--", "kani_concrete_playback", "--test-threads", "1"]
    logf = os.path.join(logdir, h["name"] + (".playback-release.log" if profile_release else ".playback.log"))
    rc, to, wall = run_group(cmd, crate, 900, logf)
    out = open(logf, errors="replace").read()
    results = []
    for n in names:
        m = re.search(r"test \S*%s \.\.\. (\w+)" % re.escape(n), out)
        st = m.group(1) if m else "missing"
        msg = ""
        pm = re.search(r"---- \S*%s stdout ----\n(.*?)(?:\n\n|\Z)" % re.escape(n), out, re.S)
        if pm:
            msg = pm.group(1).strip()[:400]
        results.append({"test": n, "native": st, "panic": msg})
    return results


def confirm(h, res, pid, logdir):
    """Replay a candidate counterexample. Returns (confirmed: bool, replay_path or None, details)."""
    crate = res["_crate"]
    tests = res.get("playback_tests") or []
    os.makedirs(REPLAY_DIR, exist_ok=True)
    if not tests:
        return False, None, "kani produced no concrete playback test"
    pb = playback(h, crate, tests, logdir)
    reproduced = [r for r in pb if r["native"] == "FAILED"]
    details = {"playback_dev": pb}
    if reproduced and h.get("replay_release", False):  # cargo kani playback 0.68 rejects --release
        details["playback_release"] = playback(h, crate, tests, logdir, profile_release=True, write=False)
    rp = os.path.join(REPLAY_DIR, "%s-%s.json" % (pid, h["name"]))
    json.dump({"property": pid, "harness": harness_path(h), "module": h["module"],
               "features": h.get("features", []), "oracle_features": h.get("oracle_features", []),
               "failed_checks": res["failed"],
               "tests": tests, "inputs": [decode_vals(t) for t in tests],
               "native": details}, open(rp, "w"), indent=1)
    return bool(reproduced), rp, details


# ------------------------------------------------------------------------------------------------
# known findings
# ------------------------------------------------------------------------------------------------

def load_known():
    """known_findings.txt: only `known:` lines suppress (as KNOWN-FINDING); `fixed:` lines never do."""
    p = os.path.join(VERIF, "known_findings.txt")
    out = []
    if not os.path.exists(p):
        return out
    for ln in open(p):
        ln = ln.strip()
        if not ln.startswith("known:"):
            continue
        kv = dict((m.group(1), m.group(2) if m.group(2) is not None else m.group(3))
                  for m in re.finditer(r'(\w+)=(?:"([^"]*)"|(\S+))', ln[len("known:"):]))
        if {"property", "harness", "failed_check", "what"} <= set(kv):
            out.append(kv)
    return out


def match_known(pid, h, failed, known):
    """A candidate is a known finding only if EVERY failed check of the harness is listed for that
    harness role (so a different violation of the same property still reports)."""
    hits = []
    for f in failed:
        ok = None
        for k in known:
            if k["property"] == pid and k["harness"] == h["name"] and k["failed_check"] == f:
                ok = k
        if ok is None:
            return None
        hits.append(ok)
    return hits


# ------------------------------------------------------------------------------------------------
# main
# ------------------------------------------------------------------------------------------------

def write_evidence(pid, tier, seed, results, wall, violations, known_hits, hs, partial=False):
    obligations = len(results)
    discharged = sum(1 for r in results if r["status"] == "PASS")
    queries = []
    nontrivial = 0
    total_checks = 0
    for r in results:
        q = {k: r.get(k) for k in ("harness", "module", "status", "reason", "wall_s", "symex_s", "solver_s",
                                   "vccs", "vccs_remaining", "vars", "clauses", "steps", "checks_total",
                                   "checks_failed", "covers_total", "covers_sat", "stubs", "user_asserts_proved")}
        q["covers"] = r.get("covers", {})
        queries.append(q)
        total_checks += r.get("checks_total") or 0
        if r["status"] == "PASS":
            nontrivial += (r.get("user_asserts_proved") or 0) + (r.get("covers_sat") or 0)
    hmeta = {h["name"]: h for h in hs}
    samples = []
    for r in results:
        h = hmeta[r["harness"]]
        samples.append({"harness": harness_path(h), "symbolic_inputs": h.get("inputs", ""),
                        "asserts": h.get("asserts", ""), "bounds": h.get("bounds", ""),
                        "cover_witnesses": r.get("covers", {})})
    ev = {
        "property_id": pid, "tier": tier, "seed": seed, "level": "model_checking",
        "coverage": {
            "evaluations": total_checks,
            "distinct_nontrivial": nontrivial,
            "rule": "evaluations = number of CBMC properties (assertions, Rust panic/overflow/bounds checks, "
                    "unwinding assertions, cover witnesses) decided by the SAT solver over all harnesses of "
                    "this run; distinct_nontrivial counts, over the harnesses whose verdict is SUCCESSFUL, the distinct "
                    "property-level assertions written in the harness (description starts with the property id) "
                    "that the solver proved plus the kani::cover! vacuity witnesses for which it found a satisfying "
                    "execution; compiler-inserted checks (overflow, bounds, unwinding) are not counted as "
                    "non-trivial. Nothing is sampled: every harness quantifies over all values of its symbolic "
                    "inputs within the stated bounds.",
            "obligations": obligations, "discharged": discharged,
            "checker_cmd": "cargo kani --harness <h> --exact -Z stubbing (Kani 0.68.0 / CBMC 6.11.0 / CaDiCaL)",
            "trusted_base": ["rustc + Kani MIR->goto translation", "CBMC 6.11.0", "CaDiCaL",
                             "model crates in /verif/models for the dependencies listed under "
                             "stubs_and_assumptions"],
            "samples": samples,
            "exhaustive": False,
            "functions_encoded": sorted({f for h in hs for f in h.get("encodes", [])}),
            "bounds": {h["name"]: h.get("bounds", "") for h in hs},
            "stubs_and_assumptions": sorted({s for h in hs for s in h.get("assumes", [])}),
            "outside_claim": registry.PROPERTIES[pid].get("outside", []),
            "queries": queries,
            "solver_time_s": round(sum((r.get("solver_s") or 0) for r in results), 2),
            "symex_time_s": round(sum((r.get("symex_s") or 0) for r in results), 2),
            "known_findings_reported": known_hits,
        },
        "assumptions": registry.PROPERTIES[pid].get("assumptions", []),
        "wall_s": round(wall, 1),
        "violations": violations,
    }
    # a run restricted with --harness / --compile-only is not a record of the property's check: keep it out of evidence/
    outdir = os.path.join(LOG_DIR, pid) if partial else EVID_DIR
    os.makedirs(outdir, exist_ok=True)
    json.dump(ev, open(os.path.join(outdir, (pid + ".partial.json") if partial else (pid + ".json")), "w"), indent=1)


def select(pid, tier, only):
    hs = [h for h in registry.HARNESSES if h["prop"] == pid]
    out = []
    for h in hs:
        if only and h["name"] not in only:
            continue
        tiers = h.get("tiers", ["quick", "thorough"])
        if tier in tiers:
            out.append(registry.resolve(h, tier))
    return out


def main(argv):
    if len(argv) < 2:
        print(__doc__)
        return 2
    if argv[1] == "list":
        for h in registry.HARNESSES:
            print(h["prop"], h["module"], h["name"], h.get("tiers", ["quick", "thorough"]))
        return 0
    if argv[1] == "selftest":
        return subprocess.call([os.path.join(VERIF, "lib", "selftest.sh")])
    pid = argv[1]
    tier = os.environ.get("VERIF_TIER", "quick")
    seed = int(os.environ.get("VERIF_SEED", "0") or 0)
    only, keep, jobs, replay = [], False, int(os.environ.get("VERIF_JOBS", "12")), None
    i = 2
    while i < len(argv):
        a = argv[i]
        if a == "--tier":
            tier = argv[i + 1]; i += 1
        elif a == "--harness":
            only.append(argv[i + 1]); i += 1
        elif a == "--keep":
            keep = True
        elif a == "--jobs":
            jobs = int(argv[i + 1]); i += 1
        elif a == "--compile-only":
            os.environ["VERIF_COMPILE_ONLY"] = "1"
        elif a == "--replay":
            replay = argv[i + 1]; i += 1
        i += 1
    if pid not in registry.PROPERTIES:
        print("unknown property", pid)
        return 2
    if replay:
        return do_replay(pid, replay)
    hs = select(pid, tier, only)
    if not hs:
        print("no harness for", pid, tier)
        return 2
    logdir = os.path.join(LOG_DIR, pid)
    os.makedirs(logdir, exist_ok=True)
    t0 = time.time()
    log("[check] property=%s tier=%s seed=%d harnesses=%d repo=%s" % (pid, tier, seed, len(hs), REPO))
    # static guards (e.g. C12 syntactic no-shared-state guard)
    pre = registry.PROPERTIES[pid].get("precheck")
    inconclusive = []
    if pre:
        ok, why = pre(REPO)
        if not ok:
            inconclusive.append("precheck: " + why)
    results = []
    # heavy harnesses first
    hs_sorted = sorted(hs, key=lambda h: -h.get("timeout", 600))
    with cf.ThreadPoolExecutor(max_workers=jobs) as ex:
        futs = {ex.submit(run_harness, h, keep, logdir): h for h in hs_sorted}
        for f in cf.as_completed(futs):
            h = futs[f]
            r = f.result()
            results.append(r)
            log("[check]  %-34s %-12s wall=%ss symex=%ss solver=%ss checks=%s covers=%s/%s %s" % (
                r["harness"], r["status"], r.get("wall_s"), r.get("symex_s"),
                round(r.get("solver_s") or 0, 1), r.get("checks_total"), r.get("covers_sat"),
                r.get("covers_total"), ("-- " + r["reason"]) if r.get("reason") else ""))
    known = load_known()
    violations = 0
    known_hits = []
    hmeta = {h["name"]: h for h in hs}
    for r in results:
        if r["status"] != "CANDIDATE":
            if r["status"] != "PASS":
                inconclusive.append("%s: %s" % (r["harness"], r["reason"]))
            continue
        h = hmeta[r["harness"]]
        confirmed, rp, details = confirm(h, r, pid, logdir)
        if not keep:
            shutil.rmtree(r["_root"], ignore_errors=True)
        r.pop("_crate", None); r.pop("_root", None)
        if not confirmed:
            r["status"] = "INCONCLUSIVE"
            r["reason"] = "counterexample did not reproduce natively (%s)" % (details if isinstance(details, str) else "see replay json")
            inconclusive.append("%s: %s" % (r["harness"], r["reason"]))
            continue
        hits = match_known(pid, h, r["failed"], known)
        if hits is not None:
            r["status"] = "KNOWN"
            for k in hits:
                line = "KNOWN-FINDING: property=%s %s" % (pid, k["what"])
                if line not in known_hits:
                    known_hits.append(line)
                    log(line)
            continue
        r["status"] = "VIOLATION"
        violations += 1
        for fc in r["failed"]:
            log("[check]  failed check in %s: %s" % (r["harness"], fc))
        log("VIOLATION property=%s replay=%s" % (pid, rp))
    for r in results:
        r.pop("playback_tests", None)
    # a KNOWN harness counts as discharged-with-finding for the exit code but not as PASS in evidence
    wall = time.time() - t0
    partial = bool(only) or bool(os.environ.get("VERIF_COMPILE_ONLY"))
    write_evidence(pid, tier, seed, results, wall, violations, known_hits, hs, partial)
    if not keep:
        shutil.rmtree(os.path.join(SCRATCH_ROOT), ignore_errors=True) if not os.listdir(SCRATCH_ROOT) else None
    if violations:
        log("[check] %s: %d violation(s), wall %.0fs" % (pid, violations, wall))
        return 1
    if inconclusive:
        for s in inconclusive:
            log("INCONCLUSIVE property=%s %s" % (pid, s))
        return 2
    log("[check] %s: all %d harnesses discharged, wall %.0fs" % (pid, len(results), wall))
    return 0


def do_replay(pid, path):
    """Re-run the recorded concrete playback tests against /repo's current tree."""
    rec = json.load(open(path))
    hname = rec["harness"].split("::")[-1]
    hs = [registry.resolve(h, "quick") for h in registry.HARNESSES if h["name"] == hname]
    if not hs:
        print("unknown harness in replay file")
        return 2
    h = hs[0]
    logdir = os.path.join(LOG_DIR, pid)
    os.makedirs(logdir, exist_ok=True)
    root, crate = make_scratch(h, "replay-" + hname)
    try:
        pb = playback(h, crate, rec["tests"], logdir)
    finally:
        shutil.rmtree(root, ignore_errors=True)
    bad = [r for r in pb if r["native"] == "FAILED"]
    for r in pb:
        print("replay %s: %s %s" % (r["test"], r["native"], r["panic"].replace("\n", " | ")[:300]))
    if bad:
        print("VIOLATION property=%s replay=%s" % (pid, path))
        return 1
    print("replay did not reproduce on the current tree")
    return 0


if __name__ == "__main__":
    sys.exit(main(sys.argv))
