//! Translator validation for the dependency models and the concrete facts the harnesses assume.
//! Not part of any verdict: it pushes concrete inputs through the real crates and the models' exact
//! parts / stated contracts, and checks the constants natively.
use num_bigint::{BigInt, Sign};
use rand::{RngCore, SeedableRng};
use sha1::{Digest, Sha1};

fn sha1(parts: &[&[u8]]) -> [u8; 20] {
    let mut h = Sha1::new();
    for p in parts {
        h.update(p);
    }
    h.finalize().into()
}

fn is_probable_prime(n: &BigInt, rng: &mut rand::rngs::StdRng) -> bool {
    let one = BigInt::from(1u8);
    let two = BigInt::from(2u8);
    let nm1 = n - &one;
    let mut d = nm1.clone();
    let mut r = 0;
    while (&d % &two) == BigInt::from(0u8) {
        d = d / &two;
        r += 1;
    }
    'outer: for _ in 0..40 {
        let mut b = [0u8; 32];
        rng.fill_bytes(&mut b);
        let a = BigInt::from_bytes_le(Sign::Plus, &b) % (n - &two - &two) + &two;
        let mut x = a.modpow(&d, n);
        if x == one || x == nm1 {
            continue;
        }
        for _ in 0..r - 1 {
            x = x.modpow(&two, n);
            if x == nm1 {
                continue 'outer;
            }
        }
        return false;
    }
    true
}

fn main() {
    let seed: u64 = std::env::var("VERIF_SEED").ok().and_then(|s| s.parse().ok()).unwrap_or(0);
    let mut rng = rand::rngs::StdRng::seed_from_u64(seed);
    let mut checks = 0u64;

    // --- constants assumed by the harnesses ---
    let n_le = wow_srp::LARGE_SAFE_PRIME_LITTLE_ENDIAN;
    let mut n_be = n_le;
    n_be.reverse();
    assert_eq!(n_be, wow_srp::LARGE_SAFE_PRIME_BIG_ENDIAN, "N big endian != reverse(little endian)");
    let hn = sha1(&[&n_le]);
    let hg = sha1(&[&[7u8]]);
    let xor: Vec<u8> = hn.iter().zip(hg.iter()).map(|(a, b)| a ^ b).collect();
    let expected: [u8; 20] = [221, 123, 176, 58, 56, 172, 115, 17, 3, 152, 124, 90, 80, 111, 202, 150, 108, 123, 194, 167];
    assert_eq!(&xor[..], &expected[..], "XOR_NG constant != SHA1(N) xor SHA1([7])");
    assert_eq!(wow_srp::GENERATOR, 7);
    let n = BigInt::from_bytes_le(Sign::Plus, &n_le);
    assert!(is_probable_prime(&n, &mut rng), "N is not prime");
    let q = (&n - BigInt::from(1u8)) / BigInt::from(2u8);
    assert!(is_probable_prime(&q, &mut rng), "(N-1)/2 is not prime");
    assert!((&n * BigInt::from(2u8)).to_bytes_le().1.len() > 32, "2N fits in 32 bytes");
    checks += 6;

    // --- UTF-8 validator model == core::str::from_utf8 ---
    for a in 0..=255u8 {
        let s = [a];
        assert_eq!(verif_oracle::utf8_valid(&s), core::str::from_utf8(&s).is_ok());
        for b in 0..=255u8 {
            let s = [a, b];
            assert_eq!(verif_oracle::utf8_valid(&s), core::str::from_utf8(&s).is_ok());
            checks += 1;
        }
    }
    for a in [0x00u8, 0x41, 0x7f, 0x80, 0xc0, 0xc2, 0xdf, 0xe0, 0xe1, 0xec, 0xed, 0xee, 0xef, 0xf0, 0xf1, 0xf3, 0xf4, 0xf5, 0xff] {
        for b in 0..=255u8 {
            for c in 0..=255u8 {
                let s = [a, b, c];
                assert_eq!(verif_oracle::utf8_valid(&s), core::str::from_utf8(&s).is_ok(), "{:?}", s);
                for d in [0x00u8, 0x7f, 0x80, 0x8f, 0x90, 0xbf, 0xc0, 0xff] {
                    let s = [a, b, c, d];
                    assert_eq!(verif_oracle::utf8_valid(&s), core::str::from_utf8(&s).is_ok(), "{:?}", s);
                    checks += 1;
                }
            }
        }
    }
    for _ in 0..200_000 {
        let len = (rng.next_u32() % 25) as usize;
        let mut s = vec![0u8; len];
        rng.fill_bytes(&mut s);
        // bias towards interesting lead bytes
        if len > 0 && rng.next_u32() % 2 == 0 {
            let k = (rng.next_u32() as usize) % len;
            s[k] = [0xc2, 0xe0, 0xed, 0xf0, 0xf4, 0x80, 0xbf][(rng.next_u32() % 7) as usize];
        }
        assert_eq!(verif_oracle::utf8_valid(&s), core::str::from_utf8(&s).is_ok(), "{:?}", s);
        checks += 1;
    }

    // --- exact parts of the bigint model == num-bigint; contracts of the uninterpreted parts hold for num-bigint ---
    use model_bigint::{BigInt as M, Sign as MS};
    for it in 0..20_000 {
        let la = (rng.next_u32() % 33) as usize;
        let lb = (rng.next_u32() % 33) as usize;
        let mut a = vec![0u8; la];
        let mut b = vec![0u8; lb];
        rng.fill_bytes(&mut a);
        rng.fill_bytes(&mut b);
        if it % 7 == 0 {
            for x in a.iter_mut().rev().take(3) {
                *x = 0;
            }
        }
        if it % 11 == 0 {
            a.iter_mut().for_each(|x| *x = 0);
        }
        let ra = BigInt::from_bytes_le(Sign::Plus, &a);
        let rb = BigInt::from_bytes_le(Sign::Plus, &b);
        let ma = M::from_bytes_le(MS::Plus, &a);
        let mb = M::from_bytes_le(MS::Plus, &b);
        // byte conversion (minimal length, [0] for zero) and equality
        assert_eq!(ra.to_bytes_le().1, ma.to_bytes_le().1, "to_bytes_le differs");
        assert_eq!(ra == rb, ma == mb);
        // rem when |a| <= |m| is exact in the model
        if rb != BigInt::from(0u8) && ra <= rb {
            assert_eq!((&ra % &rb).to_bytes_le().1, (&ma % &mb).to_bytes_le().1, "exact rem differs");
        }
        // contracts of the uninterpreted operations, checked on the real library
        if rb != BigInt::from(0u8) {
            let neg = -ra.clone();
            let r = &neg % &rb; // truncated: sign of the dividend
            assert!(r == BigInt::from(0u8) || r.sign() == Sign::Minus);
            assert!(r.magnitude() < rb.magnitude());
            let e = BigInt::from_bytes_le(Sign::Plus, &b[..lb.min(4)]);
            let p = neg.modpow(&e, &rb); // floor semantics: result in [0, m)
            assert!(p.sign() != Sign::Minus && p < rb, "modpow contract");
        }
        let prod = &ra * &rb;
        let lp = if prod == BigInt::from(0u8) { 0 } else { prod.to_bytes_le().1.len() };
        let l1 = if ra == BigInt::from(0u8) { 0 } else { ra.to_bytes_le().1.len() };
        let l2 = if rb == BigInt::from(0u8) { 0 } else { rb.to_bytes_le().1.len() };
        assert!((lp == 0) == (l1 == 0 || l2 == 0) && lp <= l1 + l2 && (lp == 0 || lp + 1 >= l1 + l2), "mul contract");
        let sum = &ra + &rb;
        let ls = if sum == BigInt::from(0u8) { 0 } else { sum.to_bytes_le().1.len() };
        assert!(ls <= l1.max(l2) + 1 && ls >= l1.max(l2), "add contract");
        let diff = &ra - &rb;
        let ld = if diff == BigInt::from(0u8) { 0 } else { diff.to_bytes_le().1.len() };
        assert!(ld <= l1.max(l2) + 1, "sub contract");
        checks += 8;
    }
    println!("selftest ok: {} concrete checks (seed {})", checks, seed);
}
