//! Model of `md5` 0.7: the digest is the uninterpreted function `verif_oracle::MD5` of the message.
use verif_oracle::{Acc, MD5};

#[derive(Clone, Copy, Debug, PartialEq, Eq)]
pub struct Digest(pub [u8; 16]);

#[derive(Clone, Debug)]
pub struct Context {
    acc: Acc,
}
impl Context {
    pub fn new() -> Self {
        Context { acc: Acc::new(MD5) }
    }
    pub fn consume<T: AsRef<[u8]>>(&mut self, data: T) {
        self.acc.push(data.as_ref());
    }
    pub fn compute(self) -> Digest {
        Digest(self.acc.finish16())
    }
}
pub fn compute<T: AsRef<[u8]>>(data: T) -> Digest {
    let mut c = Context::new();
    c.consume(data);
    c.compute()
}
