//! Uninterpreted-function oracle shared by the dependency models (sha-1, hmac, md5, num-bigint, rand).
//!
//! A hash is modelled as *some deterministic function*: a query that was asked before returns the
//! recorded answer; a new query returns an unconstrained value (`kani::any()`). This is the lazy
//! Ackermann expansion of an uninterpreted function. Ghost state lives here because the crate under
//! analysis forbids `unsafe`.
#![allow(static_mut_refs)]
#![allow(clippy::all)]

#[cfg(kani)]
extern crate kani;

// ------------------------------------------------------------------------------------------------
// capacities (cargo features of this crate, chosen per harness by the driver)
// ------------------------------------------------------------------------------------------------
#[cfg(feature = "cap256")]
pub const CAP: usize = 256;
#[cfg(all(feature = "cap192", not(feature = "cap256")))]
pub const CAP: usize = 192;
#[cfg(all(feature = "cap128", not(any(feature = "cap256", feature = "cap192"))))]
pub const CAP: usize = 128;
#[cfg(not(any(feature = "cap256", feature = "cap192", feature = "cap128")))]
pub const CAP: usize = 64;

#[cfg(feature = "q32")]
pub const MAXQ: usize = 32;
#[cfg(all(feature = "q16", not(feature = "q32")))]
pub const MAXQ: usize = 16;
#[cfg(all(feature = "q8", not(any(feature = "q32", feature = "q16"))))]
pub const MAXQ: usize = 8;
#[cfg(not(any(feature = "q32", feature = "q16", feature = "q8")))]
pub const MAXQ: usize = 4;

#[cfg(feature = "b16")]
pub const MAXB: usize = 16;
#[cfg(all(feature = "b8", not(feature = "b16")))]
pub const MAXB: usize = 8;
#[cfg(not(any(feature = "b16", feature = "b8")))]
pub const MAXB: usize = 4;

pub const OUT: usize = 40;

pub const SHA1: u8 = 1;
pub const HMAC: u8 = 2;
pub const MD5: u8 = 3;
/// kinds >= 100 are free for harness-level uninterpreted stubs of crate-internal functions
pub const USER: u8 = 100;

#[cfg(kani)]
fn fresh_out() -> [u8; OUT] {
    kani::any()
}
#[cfg(not(kani))]
fn fresh_out() -> [u8; OUT] {
    [0; OUT]
}

// ------------------------------------------------------------------------------------------------
// message accumulator
// ------------------------------------------------------------------------------------------------
#[derive(Clone, Copy)]
pub struct Acc {
    pub kind: u8,
    /// for HMAC: number of leading bytes of `buf` that are the key
    pub key_len: usize,
    pub buf: [u8; CAP],
    pub len: usize,
}

impl core::fmt::Debug for Acc {
    fn fmt(&self, _f: &mut core::fmt::Formatter<'_>) -> core::fmt::Result {
        Ok(())
    }
}

impl Acc {
    pub const fn new(kind: u8) -> Self {
        Acc { kind, key_len: 0, buf: [0; CAP], len: 0 }
    }
    pub fn keyed(kind: u8, key: &[u8]) -> Self {
        let mut a = Acc::new(kind);
        a.push(key);
        a.key_len = key.len();
        a
    }
    /// Append bytes. Capacity overflow is an assertion failure, never a silent truncation.
    pub fn push(&mut self, data: &[u8]) {
        if self.kind == HMAC && self.key_len > 0 && span_record(data) {
            return; // span mode: only where the bytes come from is recorded (large inputs)
        }
        assert!(self.len + data.len() <= CAP, "verif_oracle: message exceeds oracle capacity");
        let mut i = 0;
        while i < data.len() {
            self.buf[self.len + i] = data[i];
            i += 1;
        }
        self.len += data.len();
    }
    pub fn with(mut self, data: &[u8]) -> Self {
        self.push(data);
        self
    }
    /// Ask the oracle.
    pub fn finish(&self) -> [u8; OUT] {
        unsafe { HASHES.query(self) }
    }
    pub fn finish20(&self) -> [u8; 20] {
        let o = self.finish();
        let mut r = [0u8; 20];
        let mut i = 0;
        while i < 20 {
            r[i] = o[i];
            i += 1;
        }
        r
    }
    pub fn finish16(&self) -> [u8; 16] {
        let o = self.finish();
        let mut r = [0u8; 16];
        let mut i = 0;
        while i < 16 {
            r[i] = o[i];
            i += 1;
        }
        r
    }
    pub fn same_message(&self, o: &Acc) -> bool {
        if self.kind != o.kind || self.key_len != o.key_len || self.len != o.len {
            return false;
        }
        let mut eq = true;
        let mut i = 0;
        // 8 bytes per iteration keeps the loop bound at CAP/8 (bytes beyond len are zero in both)
        while i < CAP {
            let a = &self.buf;
            let b = &o.buf;
            if a[i] != b[i]
                || a[i + 1] != b[i + 1]
                || a[i + 2] != b[i + 2]
                || a[i + 3] != b[i + 3]
                || a[i + 4] != b[i + 4]
                || a[i + 5] != b[i + 5]
                || a[i + 6] != b[i + 6]
                || a[i + 7] != b[i + 7]
            {
                eq = false;
            }
            i += 8;
        }
        eq
    }
}

// ------------------------------------------------------------------------------------------------
// query table
// ------------------------------------------------------------------------------------------------
pub struct HashTable {
    pub q: [Acc; MAXQ],
    pub out: [[u8; OUT]; MAXQ],
    pub n: usize,
    /// per kind: answer new queries with seed-derived constants instead of symbolic values
    pub concrete: [bool; 4],
    pub seed: u8,
}

impl HashTable {
    const fn new() -> Self {
        HashTable { q: [Acc::new(0); MAXQ], out: [[0; OUT]; MAXQ], n: 0, concrete: [false; 4], seed: 0 }
    }
    fn query(&mut self, a: &Acc) -> [u8; OUT] {
        let mut out = if (a.kind as usize) < 4 && self.concrete[a.kind as usize] {
            concrete_out(self.seed, self.n as u8)
        } else {
            fresh_out()
        };
        let mut found = false;
        let mut i = 0;
        while i < self.n {
            if !found && self.q[i].same_message(a) {
                out = self.out[i];
                found = true;
            }
            i += 1;
        }
        assert!(self.n < MAXQ, "verif_oracle: too many hash queries for the configured table");
        // always append: the table index stays concrete
        self.q[self.n] = *a;
        self.out[self.n] = out;
        self.n += 1;
        out
    }
}

fn concrete_out(seed: u8, idx: u8) -> [u8; OUT] {
    let mut o = [0u8; OUT];
    let mut i = 0;
    let mut x: u32 = 0x9E37_79B9u32.wrapping_mul(seed as u32 + 1) ^ ((idx as u32 + 1).wrapping_mul(0x85EB_CA6B));
    while i < OUT {
        x ^= x << 13;
        x ^= x >> 17;
        x ^= x << 5;
        o[i] = (x >> 8) as u8;
        i += 1;
    }
    o
}

pub static mut HASHES: HashTable = HashTable::new();

pub fn set_concrete(kind: u8, on: bool, seed: u8) {
    unsafe {
        HASHES.concrete[kind as usize] = on;
        HASHES.seed = seed;
    }
}

/// Number of hash queries asked so far (spec-side and code-side).
pub fn n_queries() -> usize {
    unsafe { HASHES.n }
}
/// The i-th recorded query.
pub fn query_at(i: usize) -> Acc {
    unsafe { HASHES.q[i] }
}
pub fn answer_at(i: usize) -> [u8; OUT] {
    unsafe { HASHES.out[i] }
}

/// Convenience: build a message from parts.
pub fn msg(kind: u8, parts: &[&[u8]]) -> Acc {
    let mut a = Acc::new(kind);
    let mut i = 0;
    while i < parts.len() {
        a.push(parts[i]);
        i += 1;
    }
    a
}
pub fn sha1_of(parts: &[&[u8]]) -> [u8; 20] {
    msg(SHA1, parts).finish20()
}
pub fn hmac_of(key: &[u8], parts: &[&[u8]]) -> [u8; 20] {
    let mut a = Acc::keyed(HMAC, key);
    let mut i = 0;
    while i < parts.len() {
        a.push(parts[i]);
        i += 1;
    }
    a.finish20()
}
pub fn md5_of(parts: &[&[u8]]) -> [u8; 16] {
    msg(MD5, parts).finish16()
}
/// Harness-level uninterpreted function over byte arguments (kind >= USER).
pub fn uf(kind: u8, parts: &[&[u8]]) -> [u8; OUT] {
    msg(kind, parts).finish()
}

// ------------------------------------------------------------------------------------------------
// random-number draws (model of `rand`)
// ------------------------------------------------------------------------------------------------
pub const MAXD: usize = 8;
pub const DCAP: usize = 32;

pub struct DrawLog {
    pub bytes: [[u8; DCAP]; MAXD],
    pub len: [usize; MAXD],
    pub n: usize,
    /// total number of bytes drawn, including draws beyond the log capacity
    pub total: usize,
}
pub static mut DRAWS: DrawLog = DrawLog { bytes: [[0; DCAP]; MAXD], len: [0; MAXD], n: 0, total: 0 };

#[cfg(kani)]
fn fresh_byte() -> u8 {
    kani::any()
}
#[cfg(not(kani))]
fn fresh_byte() -> u8 {
    0
}

/// Fill `dest` with unconstrained bytes and record the draw (first DCAP bytes).
pub fn rng_fill(dest: &mut [u8]) {
    unsafe {
        let slot = DRAWS.n;
        let mut i = 0;
        while i < dest.len() {
            let b = fresh_byte();
            dest[i] = b;
            if slot < MAXD && i < DCAP {
                DRAWS.bytes[slot][i] = b;
            }
            i += 1;
        }
        if slot < MAXD {
            DRAWS.len[slot] = dest.len();
        }
        DRAWS.n += 1;
        DRAWS.total += dest.len();
    }
}
pub fn n_draws() -> usize {
    unsafe { DRAWS.n }
}
pub fn draw_len(i: usize) -> usize {
    unsafe { DRAWS.len[i] }
}
pub fn draw_bytes(i: usize) -> [u8; DCAP] {
    unsafe { DRAWS.bytes[i] }
}
pub fn drawn_total() -> usize {
    unsafe { DRAWS.total }
}

// ------------------------------------------------------------------------------------------------
// big-integer operation table (model of `num-bigint`)
// ------------------------------------------------------------------------------------------------
pub const MAG: usize = 64;

#[derive(Clone, Copy)]
pub struct Big {
    pub neg: bool,
    pub mag: [u8; MAG],
}

impl Big {
    pub const ZERO: Big = Big { neg: false, mag: [0; MAG] };
    pub fn same(&self, o: &Big) -> bool {
        if self.neg != o.neg {
            return false;
        }
        let mut eq = true;
        let mut i = 0;
        while i < MAG {
            if self.mag[i] != o.mag[i] {
                eq = false;
            }
            i += 1;
        }
        eq
    }
}

pub const OP_MODPOW: u8 = 1;
pub const OP_MUL: u8 = 2;
pub const OP_ADD: u8 = 3;
pub const OP_SUB: u8 = 4;
pub const OP_REM: u8 = 5;

pub struct BigTable {
    pub op: [u8; MAXB],
    pub a: [Big; MAXB],
    pub b: [Big; MAXB],
    pub c: [Big; MAXB],
    pub r: [Big; MAXB],
    pub n: usize,
}
pub static mut BIGS: BigTable = BigTable {
    op: [0; MAXB],
    a: [Big::ZERO; MAXB],
    b: [Big::ZERO; MAXB],
    c: [Big::ZERO; MAXB],
    r: [Big::ZERO; MAXB],
    n: 0,
};

/// Look up (op, a, b, c); `commutative` also matches (op, b, a, c). Returns the recorded result or
/// records `fresh` as the result of a new operation. The caller constrains `fresh` beforehand.
pub fn big_query(op: u8, a: &Big, b: &Big, c: &Big, commutative: bool, fresh: Big) -> Big {
    unsafe {
        let t = &mut BIGS;
        let mut out = fresh;
        let mut found = false;
        let mut i = 0;
        while i < t.n {
            if !found && t.op[i] == op && t.c[i].same(c) {
                let direct = t.a[i].same(a) && t.b[i].same(b);
                let swapped = commutative && t.a[i].same(b) && t.b[i].same(a);
                if direct || swapped {
                    out = t.r[i];
                    found = true;
                }
            }
            i += 1;
        }
        assert!(t.n < MAXB, "verif_oracle: too many big-integer operations for the configured table");
        t.op[t.n] = op;
        t.a[t.n] = *a;
        t.b[t.n] = *b;
        t.c[t.n] = *c;
        t.r[t.n] = out;
        t.n += 1;
        out
    }
}
pub fn n_bigops() -> usize {
    unsafe { BIGS.n }
}
pub fn bigop_at(i: usize) -> (u8, Big, Big, Big, Big) {
    unsafe { (BIGS.op[i], BIGS.a[i], BIGS.b[i], BIGS.c[i], BIGS.r[i]) }
}

// ------------------------------------------------------------------------------------------------
// generic ghost counters for harness stubs
// ------------------------------------------------------------------------------------------------
pub static mut COUNTERS: [usize; 16] = [0; 16];
pub fn bump(i: usize) {
    unsafe { COUNTERS[i] += 1 }
}
pub fn counter(i: usize) -> usize {
    unsafe { COUNTERS[i] }
}
/// ghost byte storage for recording stubs (e.g. the key handed to `Rc4::new`)
pub static mut GHOST: [[u8; 64]; 8] = [[0; 64]; 8];
pub static mut GHOST_LEN: [usize; 8] = [0; 8];
pub fn ghost_store(slot: usize, data: &[u8]) {
    unsafe {
        assert!(data.len() <= 64);
        let mut i = 0;
        while i < data.len() {
            GHOST[slot][i] = data[i];
            i += 1;
        }
        GHOST_LEN[slot] = data.len();
    }
}
pub fn ghost_load(slot: usize) -> ([u8; 64], usize) {
    unsafe { (GHOST[slot], GHOST_LEN[slot]) }
}

// ------------------------------------------------------------------------------------------------
// UTF-8 validation model (Kani stub for core::str::from_utf8)
// ------------------------------------------------------------------------------------------------
/// Unicode 15 table 3-7 (well-formed UTF-8 byte sequences), one byte per loop iteration.
pub fn utf8_valid(b: &[u8]) -> bool {
    let mut ok = true;
    let mut need: u8 = 0; // continuation bytes still expected
    let mut lo: u8 = 0x80; // allowed range of the next continuation byte
    let mut hi: u8 = 0xBF;
    let mut i = 0;
    while i < b.len() {
        let c = b[i];
        if need == 0 {
            if c <= 0x7F {
                // ASCII
            } else if c >= 0xC2 && c <= 0xDF {
                need = 1;
                lo = 0x80;
                hi = 0xBF;
            } else if c == 0xE0 {
                need = 2;
                lo = 0xA0;
                hi = 0xBF;
            } else if (c >= 0xE1 && c <= 0xEC) || c == 0xEE || c == 0xEF {
                need = 2;
                lo = 0x80;
                hi = 0xBF;
            } else if c == 0xED {
                need = 2;
                lo = 0x80;
                hi = 0x9F;
            } else if c == 0xF0 {
                need = 3;
                lo = 0x90;
                hi = 0xBF;
            } else if c >= 0xF1 && c <= 0xF3 {
                need = 3;
                lo = 0x80;
                hi = 0xBF;
            } else if c == 0xF4 {
                need = 3;
                lo = 0x80;
                hi = 0x8F;
            } else {
                ok = false;
            }
        } else {
            if c < lo || c > hi {
                ok = false;
            }
            need -= 1;
            lo = 0x80;
            hi = 0xBF;
        }
        i += 1;
    }
    ok && need == 0
}

/// Same accept set as `core::str::from_utf8`; the error payload is unspecified.
pub fn from_utf8_model(v: &[u8]) -> Result<&str, core::str::Utf8Error> {
    if utf8_valid(v) {
        Ok(unsafe { core::str::from_utf8_unchecked(v) })
    } else {
        let mut bad = [0xFFu8];
        Err(core::str::from_utf8_mut(&mut bad).unwrap_err())
    }
}

/// View bytes as `&str` without validation; callers assume `utf8_valid` first.
pub fn str_unchecked(v: &[u8]) -> &str {
    unsafe { core::str::from_utf8_unchecked(v) }
}

// ------------------------------------------------------------------------------------------------
// explicit collision-resistance assumption (only where a harness says so)
// ------------------------------------------------------------------------------------------------
#[cfg(kani)]
pub fn assume_collision_free() {
    unsafe {
        let t = &HASHES;
        let mut i = 0;
        while i < t.n {
            let mut j = i + 1;
            while j < t.n {
                if !t.q[i].same_message(&t.q[j]) {
                    let mut same = true;
                    let mut k = 0;
                    while k < 20 {
                        if t.out[i][k] != t.out[j][k] {
                            same = false;
                        }
                        k += 1;
                    }
                    kani::assume(!same);
                }
                j += 1;
            }
            i += 1;
        }
    }
}
#[cfg(not(kani))]
pub fn assume_collision_free() {}

// ------------------------------------------------------------------------------------------------
// span mode for large HMAC inputs: instead of copying message bytes, record that the pieces fed to HMAC
// are consecutive sub-slices of one buffer (so chunked processing of inputs far larger than CAP can be
// checked: every byte of the buffer is hashed exactly once, in order)
// ------------------------------------------------------------------------------------------------
pub struct SpanLog {
    pub on: bool,
    pub next: *const u8,
    pub total: usize,
    pub pieces: usize,
    pub contiguous: bool,
}
pub static mut SPANS: SpanLog = SpanLog { on: false, next: core::ptr::null(), total: 0, pieces: 0, contiguous: true };

pub fn span_begin(base: *const u8) {
    unsafe {
        SPANS.on = true;
        SPANS.next = base;
        SPANS.total = 0;
        SPANS.pieces = 0;
        SPANS.contiguous = true;
    }
}
fn span_record(data: &[u8]) -> bool {
    unsafe {
        if !SPANS.on {
            return false;
        }
        if data.len() > 0 {
            if data.as_ptr() != SPANS.next {
                SPANS.contiguous = false;
            }
            SPANS.next = data.as_ptr().add(data.len());
            SPANS.total += data.len();
        }
        SPANS.pieces += 1;
        true
    }
}
/// (all pieces consecutive from the base pointer, total bytes, number of update calls)
pub fn span_end() -> (bool, usize, usize) {
    unsafe {
        SPANS.on = false;
        (SPANS.contiguous, SPANS.total, SPANS.pieces)
    }
}
