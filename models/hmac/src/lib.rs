//! Model of `hmac` 0.12: HMAC(key, msg) is the uninterpreted function `verif_oracle::HMAC` of
//! (key, concatenated message); any key length is accepted.
pub mod digest {
    pub use sha1::digest::{FixedOutput, Output};
    #[derive(Debug)]
    pub struct InvalidLength;
}
use core::marker::PhantomData;
use digest::{FixedOutput, Output};
use verif_oracle::{Acc, HMAC};

#[derive(Clone, Debug)]
pub struct Hmac<D> {
    acc: Acc,
    _d: PhantomData<D>,
}

pub struct CtOutput(Output);
impl CtOutput {
    pub fn into_bytes(self) -> Output {
        self.0
    }
}

pub trait Mac: Sized {
    fn new_from_slice(key: &[u8]) -> Result<Self, digest::InvalidLength>;
    fn update(&mut self, data: &[u8]);
    fn finalize(self) -> CtOutput;
}

impl<D> Mac for Hmac<D> {
    fn new_from_slice(key: &[u8]) -> Result<Self, digest::InvalidLength> {
        Ok(Hmac { acc: Acc::keyed(HMAC, key), _d: PhantomData })
    }
    fn update(&mut self, data: &[u8]) {
        self.acc.push(data);
    }
    fn finalize(self) -> CtOutput {
        CtOutput(Output(self.acc.finish20()))
    }
}
impl<D> Hmac<D> {
    pub fn new_from_slice(key: &[u8]) -> Result<Self, digest::InvalidLength> {
        <Self as Mac>::new_from_slice(key)
    }
}
impl<D> FixedOutput for Hmac<D> {
    fn finalize_fixed(self) -> Output {
        Output(self.acc.finish20())
    }
}
