//! Model of `sha-1` 0.10 (lib name `sha1`): streaming == one-shot on the concatenation; the digest
//! is the uninterpreted function `verif_oracle::SHA1` of the message.
pub mod digest {
    pub use crate::imp::{Digest, FixedOutput, Output};
}
pub use digest::Digest;

mod imp {
    use verif_oracle::{Acc, SHA1};

    /// Stand-in for `GenericArray<u8, U20>`.
    #[derive(Clone, Copy, Debug, PartialEq, Eq)]
    pub struct Output(pub [u8; 20]);

    impl Output {
        pub fn as_slice(&self) -> &[u8] {
            &self.0
        }
        pub fn iter(&self) -> core::slice::Iter<'_, u8> {
            self.0.iter()
        }
    }
    impl From<Output> for [u8; 20] {
        fn from(o: Output) -> Self {
            o.0
        }
    }
    impl AsRef<[u8]> for Output {
        fn as_ref(&self) -> &[u8] {
            &self.0
        }
    }
    impl core::ops::Deref for Output {
        type Target = [u8];
        fn deref(&self) -> &[u8] {
            &self.0
        }
    }

    pub trait Digest: Sized {
        fn new() -> Self;
        fn update(&mut self, data: impl AsRef<[u8]>);
        fn chain_update(mut self, data: impl AsRef<[u8]>) -> Self {
            self.update(data);
            self
        }
        fn finalize(self) -> Output;
        fn digest(data: impl AsRef<[u8]>) -> Output {
            Self::new().chain_update(data).finalize()
        }
    }

    pub trait FixedOutput: Sized {
        fn finalize_fixed(self) -> Output;
    }

    #[derive(Clone, Debug)]
    pub struct Sha1 {
        acc: Acc,
    }

    impl Default for Sha1 {
        fn default() -> Self {
            Sha1 { acc: Acc::new(SHA1) }
        }
    }

    impl Digest for Sha1 {
        fn new() -> Self {
            Sha1::default()
        }
        fn update(&mut self, data: impl AsRef<[u8]>) {
            self.acc.push(data.as_ref());
        }
        fn finalize(self) -> Output {
            Output(self.acc.finish20())
        }
    }
    impl FixedOutput for Sha1 {
        fn finalize_fixed(self) -> Output {
            Output(self.acc.finish20())
        }
    }
}

pub use imp::Sha1;
