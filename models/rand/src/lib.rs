//! Model of `rand` 0.8: every draw is an unconstrained value, recorded in `verif_oracle`'s draw log.
pub trait RngCore {
    fn next_u32(&mut self) -> u32;
    fn next_u64(&mut self) -> u64;
    fn fill_bytes(&mut self, dest: &mut [u8]);
}
pub trait Rng: RngCore {}
impl<T: RngCore> Rng for T {}

#[derive(Clone, Debug)]
pub struct ThreadRng {
    _p: (),
}
pub fn thread_rng() -> ThreadRng {
    ThreadRng { _p: () }
}
impl RngCore for ThreadRng {
    fn next_u32(&mut self) -> u32 {
        let mut b = [0u8; 4];
        verif_oracle::rng_fill(&mut b);
        u32::from_le_bytes(b)
    }
    fn next_u64(&mut self) -> u64 {
        let mut b = [0u8; 8];
        verif_oracle::rng_fill(&mut b);
        u64::from_le_bytes(b)
    }
    fn fill_bytes(&mut self, dest: &mut [u8]) {
        verif_oracle::rng_fill(dest);
    }
}

pub trait RandomValue {
    fn random_value() -> Self;
}
impl RandomValue for u32 {
    fn random_value() -> Self {
        thread_rng().next_u32()
    }
}
impl RandomValue for u64 {
    fn random_value() -> Self {
        thread_rng().next_u64()
    }
}
pub fn random<T: RandomValue>() -> T {
    T::random_value()
}

pub mod distributions {
    use super::Rng;
    pub trait Distribution<T> {
        fn sample<R: Rng + ?Sized>(&self, rng: &mut R) -> T;
    }
    #[derive(Clone, Copy, Debug)]
    pub struct Uniform<T> {
        lo: T,
        hi: T,
    }
    impl From<core::ops::RangeInclusive<u8>> for Uniform<u8> {
        fn from(r: core::ops::RangeInclusive<u8>) -> Self {
            Uniform { lo: *r.start(), hi: *r.end() }
        }
    }
    impl Distribution<u8> for Uniform<u8> {
        /// contract of `Uniform`: some value in lo..=hi, derived from one RNG draw
        fn sample<R: Rng + ?Sized>(&self, rng: &mut R) -> u8 {
            assert!(self.lo <= self.hi);
            let mut b = [0u8; 1];
            rng.fill_bytes(&mut b);
            let span = (self.hi - self.lo) as u16 + 1;
            self.lo + ((b[0] as u16) % span) as u8
        }
    }
}
pub mod prelude {
    pub use super::distributions::Distribution;
    pub use super::{thread_rng, Rng, RngCore};
}
