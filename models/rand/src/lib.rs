//! Model of `rand` 0.8: every draw is an unconstrained value, recorded in `verif_oracle`'s draw log.
pub trait RngCore {
    fn next_u32(&mut self) -> u32;
    fn next_u64(&mut self) -> u64;
    fn fill_bytes(&mut self, dest: &mut [u8]);
}
/// `Rng::gen` / `Rng::fill` / `Rng::gen_range` (subset): every value is built from fresh logged bytes
pub trait Rng: RngCore {
    fn gen<T: FromRng>(&mut self) -> T
    where
        Self: Sized,
    {
        T::from_rng_bytes(self)
    }
    fn fill(&mut self, dest: &mut [u8]) {
        self.fill_bytes(dest)
    }
    fn gen_range(&mut self, range: core::ops::Range<u32>) -> u32
    where
        Self: Sized,
    {
        assert!(range.start < range.end, "cannot sample empty range");
        range.start + self.next_u32() % (range.end - range.start)
    }
}
impl<T: RngCore> Rng for T {}

pub trait FromRng {
    fn from_rng_bytes<R: RngCore>(rng: &mut R) -> Self;
}
impl FromRng for u8 {
    fn from_rng_bytes<R: RngCore>(rng: &mut R) -> Self {
        let mut b = [0u8; 1];
        rng.fill_bytes(&mut b);
        b[0]
    }
}
impl FromRng for u16 {
    fn from_rng_bytes<R: RngCore>(rng: &mut R) -> Self {
        let mut b = [0u8; 2];
        rng.fill_bytes(&mut b);
        u16::from_le_bytes(b)
    }
}
impl FromRng for u32 {
    fn from_rng_bytes<R: RngCore>(rng: &mut R) -> Self {
        rng.next_u32()
    }
}
impl FromRng for u64 {
    fn from_rng_bytes<R: RngCore>(rng: &mut R) -> Self {
        rng.next_u64()
    }
}
impl<const N: usize> FromRng for [u8; N] {
    fn from_rng_bytes<R: RngCore>(rng: &mut R) -> Self {
        let mut b = [0u8; N];
        rng.fill_bytes(&mut b);
        b
    }
}

#[derive(Clone, Debug)]
pub struct ThreadRng {
    _p: (),
}
pub fn thread_rng() -> ThreadRng {
    ThreadRng { _p: () }
}
impl RngCore for ThreadRng {
    fn next_u32(&mut self) -> u32 {
        let mut b = [0u8; 4];
        verif_oracle::rng_fill(&mut b);
        u32::from_le_bytes(b)
    }
    fn next_u64(&mut self) -> u64 {
        let mut b = [0u8; 8];
        verif_oracle::rng_fill(&mut b);
        u64::from_le_bytes(b)
    }
    fn fill_bytes(&mut self, dest: &mut [u8]) {
        verif_oracle::rng_fill(dest);
    }
}

pub trait RandomValue {
    fn random_value() -> Self;
}
impl RandomValue for u32 {
    fn random_value() -> Self {
        thread_rng().next_u32()
    }
}
impl RandomValue for u64 {
    fn random_value() -> Self {
        thread_rng().next_u64()
    }
}
pub fn random<T: RandomValue>() -> T {
    T::random_value()
}

pub mod distributions {
    use super::Rng;
    pub trait Distribution<T> {
        fn sample<R: Rng + ?Sized>(&self, rng: &mut R) -> T;
    }
    #[derive(Clone, Copy, Debug)]
    pub struct Uniform<T> {
        lo: T,
        hi: T,
    }
    impl From<core::ops::RangeInclusive<u8>> for Uniform<u8> {
        fn from(r: core::ops::RangeInclusive<u8>) -> Self {
            Uniform { lo: *r.start(), hi: *r.end() }
        }
    }
    impl Distribution<u8> for Uniform<u8> {
        /// contract of `Uniform`: some value in lo..=hi, derived from one RNG draw
        fn sample<R: Rng + ?Sized>(&self, rng: &mut R) -> u8 {
            assert!(self.lo <= self.hi);
            let mut b = [0u8; 1];
            rng.fill_bytes(&mut b);
            let span = (self.hi - self.lo) as u16 + 1;
            self.lo + ((b[0] as u16) % span) as u8
        }
    }
}
pub mod prelude {
    pub use super::distributions::Distribution;
    pub use super::rngs::StdRng;
    pub use super::{thread_rng, Rng, RngCore, SeedableRng};
}

// ------------------------------------------------------------------------------------------------
// deterministic generators: their output is a function of the seed, NOT a fresh draw (nothing is logged)
// ------------------------------------------------------------------------------------------------
pub trait SeedableRng: Sized {
    type Seed;
    fn from_seed(seed: Self::Seed) -> Self;
    fn seed_from_u64(state: u64) -> Self;
    fn from_entropy() -> Self;
    fn from_rng<R: RngCore>(rng: R) -> Result<Self, Error>;
}
#[derive(Debug)]
pub struct Error;
pub mod rngs {
    use super::{RngCore, SeedableRng};
    pub use super::ThreadRng;
    #[derive(Clone, Debug)]
    pub struct StdRng {
        seed: [u8; 32],
        ctr: u32,
    }
    pub type SmallRng = StdRng;
    impl SeedableRng for StdRng {
        type Seed = [u8; 32];
        fn from_seed(seed: [u8; 32]) -> Self {
            StdRng { seed, ctr: 0 }
        }
        fn seed_from_u64(state: u64) -> Self {
            let mut seed = [0u8; 32];
            let b = state.to_le_bytes();
            let mut i = 0;
            while i < 8 {
                seed[i] = b[i];
                i += 1;
            }
            StdRng { seed, ctr: 0 }
        }
        fn from_entropy() -> Self {
            let mut seed = [0u8; 32];
            verif_oracle::rng_fill(&mut seed);
            StdRng { seed, ctr: 0 }
        }
        fn from_rng<R: RngCore>(mut rng: R) -> Result<Self, super::Error> {
            let mut seed = [0u8; 32];
            rng.fill_bytes(&mut seed);
            Ok(StdRng { seed, ctr: 0 })
        }
    }
    impl RngCore for StdRng {
        fn next_u32(&mut self) -> u32 {
            let mut b = [0u8; 4];
            self.fill_bytes(&mut b);
            u32::from_le_bytes(b)
        }
        fn next_u64(&mut self) -> u64 {
            let mut b = [0u8; 8];
            self.fill_bytes(&mut b);
            u64::from_le_bytes(b)
        }
        fn fill_bytes(&mut self, dest: &mut [u8]) {
            // output block k = UF(seed, k): deterministic in the seed, 32 bytes per block
            let mut i = 0;
            while i < dest.len() {
                let o = verif_oracle::uf(verif_oracle::USER + 50, &[&self.seed, &self.ctr.to_le_bytes()]);
                let mut j = 0;
                while j < 32 && i < dest.len() {
                    dest[i] = o[j];
                    i += 1;
                    j += 1;
                }
                self.ctr += 1;
            }
        }
    }
}
