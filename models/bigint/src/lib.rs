//! Model of `num-bigint` 0.4 (`BigInt` only): sign + 64-byte little-endian magnitude.
//!
//! Exact: byte conversions, equality, `a % m` when |a| <= |m|.
//! Uninterpreted (consistency table in `verif_oracle`) with contracts: `modpow`, `*`, `+`, `-`, other `%`.
//! Capacity overflow is an assertion failure.
#![allow(clippy::all)]
#[cfg(kani)]
extern crate kani;

use verif_oracle::{big_query, Big, MAG, OP_ADD, OP_MODPOW, OP_MUL, OP_REM, OP_SUB};

#[derive(Clone, Copy, Debug, PartialEq, Eq)]
pub enum Sign {
    Minus,
    NoSign,
    Plus,
}

#[derive(Clone)]
pub struct BigInt {
    v: Big,
}

impl core::fmt::Debug for BigInt {
    fn fmt(&self, _f: &mut core::fmt::Formatter<'_>) -> core::fmt::Result {
        Ok(())
    }
}

fn mag_len(m: &[u8; MAG]) -> usize {
    let mut len = 0;
    let mut i = 0;
    while i < MAG {
        if m[i] != 0 {
            len = i + 1;
        }
        i += 1;
    }
    len
}

/// -1 / 0 / 1 comparison of magnitudes
fn mag_cmp(a: &[u8; MAG], b: &[u8; MAG]) -> i8 {
    let mut r = 0i8;
    let mut i = 0;
    while i < MAG {
        // later (more significant) bytes override
        if a[i] < b[i] {
            r = -1;
        } else if a[i] > b[i] {
            r = 1;
        }
        i += 1;
    }
    r
}

#[cfg(kani)]
fn fresh_big() -> Big {
    let neg: bool = kani::any();
    let mag: [u8; MAG] = kani::any();
    let b = Big { neg, mag };
    // canonical form: zero is never negative
    kani::assume(!(neg && mag_len(&mag) == 0));
    b
}
#[cfg(not(kani))]
fn fresh_big() -> Big {
    Big::ZERO
}

#[cfg(kani)]
fn assume(c: bool) {
    kani::assume(c)
}
#[cfg(not(kani))]
fn assume(_c: bool) {}

impl BigInt {
    pub fn from_raw(v: Big) -> BigInt {
        BigInt { v }
    }
    pub fn raw(&self) -> &Big {
        &self.v
    }
    pub fn is_zero_model(&self) -> bool {
        mag_len(&self.v.mag) == 0
    }
    pub fn is_negative_model(&self) -> bool {
        self.v.neg
    }
    /// number of significant bytes of the magnitude
    pub fn byte_len_model(&self) -> usize {
        mag_len(&self.v.mag)
    }

    pub fn from_bytes_le(sign: Sign, bytes: &[u8]) -> BigInt {
        assert!(bytes.len() <= MAG, "bigint model: operand exceeds 64 bytes");
        let mut mag = [0u8; MAG];
        let mut i = 0;
        while i < bytes.len() {
            mag[i] = bytes[i];
            i += 1;
        }
        let zero = mag_len(&mag) == 0;
        let neg = match sign {
            Sign::Minus => !zero,
            Sign::NoSign => {
                mag = [0u8; MAG];
                false
            }
            Sign::Plus => false,
        };
        BigInt { v: Big { neg, mag } }
    }

    pub fn to_bytes_le(&self) -> (Sign, Vec<u8>) {
        let len = mag_len(&self.v.mag);
        if len == 0 {
            return (Sign::NoSign, vec![0u8]);
        }
        let sign = if self.v.neg { Sign::Minus } else { Sign::Plus };
        (sign, self.v.mag[..len].to_vec())
    }

    /// num-bigint: panics if the exponent is negative or the modulus is zero; the result is in
    /// [0, m) for m > 0 and in (m, 0] for m < 0 (floor semantics).
    pub fn modpow(&self, exponent: &BigInt, modulus: &BigInt) -> BigInt {
        assert!(!exponent.v.neg, "negative exponentiation is not supported!");
        assert!(mag_len(&modulus.v.mag) != 0, "attempt to calculate with zero modulus!");
        let r = fresh_big();
        assume(mag_cmp(&r.mag, &modulus.v.mag) < 0);
        assume(mag_len(&r.mag) == 0 || r.neg == modulus.v.neg);
        BigInt { v: big_query(OP_MODPOW, &self.v, &exponent.v, &modulus.v, false, r) }
    }

    fn mul_model(a: &Big, b: &Big) -> Big {
        let la = mag_len(&a.mag);
        let lb = mag_len(&b.mag);
        assert!(la + lb <= MAG, "bigint model: product exceeds 64 bytes");
        let r = fresh_big();
        let lr = mag_len(&r.mag);
        assume((lr == 0) == (la == 0 || lb == 0));
        assume(lr <= la + lb);
        assume(lr == 0 || lr + 1 >= la + lb);
        assume(lr == 0 || r.neg == (a.neg != b.neg));
        big_query(OP_MUL, a, b, &Big::ZERO, true, r)
    }

    fn add_model(a: &Big, b: &Big) -> Big {
        let la = mag_len(&a.mag);
        let lb = mag_len(&b.mag);
        let m = if la > lb { la } else { lb };
        assert!(m < MAG, "bigint model: sum exceeds 64 bytes");
        let r = fresh_big();
        let lr = mag_len(&r.mag);
        assume(lr <= m + 1);
        // equal signs: the sign is kept and the magnitude does not shrink below the larger operand
        if a.neg == b.neg {
            assume(lr == 0 || r.neg == a.neg);
            assume(lr >= m);
        }
        big_query(OP_ADD, a, b, &Big::ZERO, true, r)
    }

    fn sub_model(a: &Big, b: &Big) -> Big {
        let la = mag_len(&a.mag);
        let lb = mag_len(&b.mag);
        let m = if la > lb { la } else { lb };
        assert!(m < MAG, "bigint model: difference exceeds 64 bytes");
        let r = fresh_big();
        let lr = mag_len(&r.mag);
        assume(lr <= m + 1);
        if a.same(b) {
            assume(lr == 0);
        }
        big_query(OP_SUB, a, b, &Big::ZERO, false, r)
    }

    /// Rust `%`: truncated remainder, sign of the dividend.
    fn rem_model(a: &Big, m: &Big) -> Big {
        assert!(mag_len(&m.mag) != 0, "attempt to divide by zero");
        let c = mag_cmp(&a.mag, &m.mag);
        if c < 0 {
            return *a;
        }
        if c == 0 {
            return Big::ZERO;
        }
        let r = fresh_big();
        assume(mag_cmp(&r.mag, &m.mag) < 0);
        assume(mag_len(&r.mag) == 0 || r.neg == a.neg);
        big_query(OP_REM, a, m, &Big::ZERO, false, r)
    }
}

impl PartialEq for BigInt {
    fn eq(&self, o: &BigInt) -> bool {
        self.v.same(&o.v)
    }
}
impl Eq for BigInt {}

impl From<u8> for BigInt {
    fn from(v: u8) -> Self {
        let mut mag = [0u8; MAG];
        mag[0] = v;
        BigInt { v: Big { neg: false, mag } }
    }
}
impl From<u32> for BigInt {
    fn from(v: u32) -> Self {
        let mut mag = [0u8; MAG];
        let b = v.to_le_bytes();
        mag[0] = b[0];
        mag[1] = b[1];
        mag[2] = b[2];
        mag[3] = b[3];
        BigInt { v: Big { neg: false, mag } }
    }
}

macro_rules! binop {
    ($tr:ident, $f:ident, $m:ident) => {
        impl core::ops::$tr<BigInt> for BigInt {
            type Output = BigInt;
            fn $f(self, rhs: BigInt) -> BigInt {
                BigInt { v: BigInt::$m(&self.v, &rhs.v) }
            }
        }
        impl core::ops::$tr<&BigInt> for BigInt {
            type Output = BigInt;
            fn $f(self, rhs: &BigInt) -> BigInt {
                BigInt { v: BigInt::$m(&self.v, &rhs.v) }
            }
        }
        impl core::ops::$tr<BigInt> for &BigInt {
            type Output = BigInt;
            fn $f(self, rhs: BigInt) -> BigInt {
                BigInt { v: BigInt::$m(&self.v, &rhs.v) }
            }
        }
        impl core::ops::$tr<&BigInt> for &BigInt {
            type Output = BigInt;
            fn $f(self, rhs: &BigInt) -> BigInt {
                BigInt { v: BigInt::$m(&self.v, &rhs.v) }
            }
        }
    };
}
binop!(Mul, mul, mul_model);
binop!(Add, add, add_model);
binop!(Sub, sub, sub_model);
binop!(Rem, rem, rem_model);
