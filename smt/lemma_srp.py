#!/usr/bin/env python3
"""Sanity check of Lemma L (SRP-6 correctness) at toy width, with two SMT solvers (z3, cvc5) over SMT-LIB2.

For the prime N and generator g below and all a, b, x, u < 2^E (E bits):
    (A * v^u)^b  ==  (B - k*v)^(a + u*x)   (mod N)     with v = g^x, A = g^a, B = k*v + g^b, k = 3
is stated negated; both solvers must answer unsat. This is NOT a proof of the lemma for the 256-bit group (bit-blasted
modular exponentiation does not scale); it guards against mis-stating the lemma that the C01 flow harness assumes.
"""
import subprocess, sys, time

W = 16  # bit-vector width, large enough for products modulo N < 2^5


def modpow(base, exp_bits, n):
    # square-and-multiply over the bits of exp (list of SMT terms, LSB first), all modulo n
    acc = "(_ bv1 %d)" % W
    cur = "(bvurem %s %s)" % (base, n)
    for bit in exp_bits:
        acc = "(ite (= %s #b1) (bvurem (bvmul %s %s) %s) %s)" % (bit, acc, cur, n, acc)
        cur = "(bvurem (bvmul %s %s) %s)" % (cur, cur, n)
    return acc


def bits(v, k):
    return ["((_ extract %d %d) %s)" % (i, i, v) for i in range(k)]


def query(N, g, E):
    n = "(_ bv%d %d)" % (N, W)
    gg = "(_ bv%d %d)" % (g, W)
    k = "(_ bv3 %d)" % W
    s = ["(set-logic QF_BV)"]
    for v in "abxu":
        s.append("(declare-const %s (_ BitVec %d))" % (v, W))
        s.append("(assert (bvult %s (_ bv%d %d)))" % (v, 1 << E, W))
    s.append("(define-fun v () (_ BitVec %d) %s)" % (W, modpow(gg, bits("x", E), n)))
    s.append("(define-fun A () (_ BitVec %d) %s)" % (W, modpow(gg, bits("a", E), n)))
    s.append("(define-fun gb () (_ BitVec %d) %s)" % (W, modpow(gg, bits("b", E), n)))
    s.append("(define-fun B () (_ BitVec %d) (bvurem (bvadd (bvmul %s v) gb) %s))" % (W, k, n))
    # server: (A * v^u)^b
    s.append("(define-fun vu () (_ BitVec %d) %s)" % (W, modpow("v", bits("u", E), n)))
    s.append("(define-fun Ss () (_ BitVec %d) %s)" % (W, modpow("(bvmul A vu)", bits("b", E), n)))
    # client: (B - k*v mod N)^(a + u*x); exponent has 2E+1 bits
    s.append("(define-fun base () (_ BitVec %d) (bvurem (bvadd B (bvsub (bvmul %s %s) (bvurem (bvmul %s v) %s))) %s))" % (W, n, k, k, n, n))
    s.append("(define-fun e () (_ BitVec %d) (bvadd a (bvmul u x)))" % W)
    s.append("(define-fun Sc () (_ BitVec %d) %s)" % (W, modpow("base", bits("e", 2 * E + 1), n)))
    s.append("(assert (not (= Ss Sc)))")
    s.append("(check-sat)")
    return "\n".join(s) + "\n"


def run(cmd, text):
    t0 = time.time()
    p = subprocess.run(cmd, input=text, capture_output=True, text=True, timeout=600)
    out = (p.stdout + p.stderr).strip()
    return out, time.time() - t0


def main():
    ok = True
    for (N, g, E) in [(11, 2, 3), (23, 7, 3), (23, 5, 4)]:
        q = query(N, g, E)
        for name, cmd in [("z3", ["/usr/bin/z3", "-in", "-smt2"]), ("cvc5", ["cvc5", "--lang", "smt2"])]:
            try:
                out, dt = run(cmd, q)
            except subprocess.TimeoutExpired:
                print("lemma L N=%d g=%d E=%d %s: timeout (inconclusive)" % (N, g, E, name))
                ok = False
                continue
            verdict = out.splitlines()[-1] if out else "?"
            if "(error" in out or verdict != "unsat":
                print("lemma L N=%d g=%d E=%d %s: %s (NOT unsat)" % (N, g, E, name, out[:200]))
                ok = False
            else:
                print("lemma L N=%d g=%d E=%d %s: unsat in %.1fs" % (N, g, E, name, dt))
    sys.exit(0 if ok else 2)


if __name__ == "__main__":
    main()
